#!/bin/bash
# ./seedtest.sh confirm <src_dir> <name>      confirm a candidate (src_dir has patch.diff + demo_*.rs) in a scratch worktree
#                                             and, if valid, store it as seeded/<name>/
# ./seedtest.sh run <name> <tier> <ids...>    apply seeded/<name>/patch.diff to /repo, run the checks, undo it
set -u
ROOT="$(cd "$(dirname "$0")" && pwd)"
cmd="$1"; shift
case "$cmd" in
confirm)
  src="$1"; name="$2"
  wt=/tmp/seedconfirm_$$
  git -C /repo worktree add --detach "$wt" HEAD >/dev/null 2>&1 || exit 2
  cp /repo/Cargo.lock "$wt/"
  demo=$(ls "$src"/demo_*.rs | head -1); dn=$(basename "$demo" .rs)
  mkdir -p "$wt/tests"; cp "$demo" "$wt/tests/$dn.rs"
  cd "$wt"
  clean_demo=$(CARGO_TARGET_DIR=/tmp/seedconfirm_target cargo test --offline --test "$dn" 2>&1 | grep -E "^test result" | tail -1)
  git apply "$src/patch.diff" || { echo "patch does not apply"; cd /; git -C /repo worktree remove --force "$wt"; exit 2; }
  suite=$( (CARGO_TARGET_DIR=/tmp/seedconfirm_target cargo test --offline --lib 2>&1; CARGO_TARGET_DIR=/tmp/seedconfirm_target cargo test --offline --doc 2>&1) | grep -E "^test result" | tr '\n' ' ')
  mut_demo=$(CARGO_TARGET_DIR=/tmp/seedconfirm_target cargo test --offline --test "$dn" 2>&1 | grep -E "^test result" | tail -1)
  cd /; git -C /repo worktree remove --force "$wt"
  echo "clean demo : $clean_demo"; echo "suite+patch: $suite"; echo "patch demo : $mut_demo"
  ok=1
  echo "$clean_demo" | grep -q "ok\." || ok=0
  echo "$suite" | grep -q "62 passed; 0 failed" || ok=0
  echo "$suite" | grep -q "4 passed; 0 failed" || ok=0
  echo "$mut_demo" | grep -q "FAILED" || ok=0
  if [ $ok -eq 1 ]; then
    mkdir -p "$ROOT/seeded/$name"; cp "$src/patch.diff" "$ROOT/seeded/$name/patch.diff"; cp "$demo" "$ROOT/seeded/$name/demo.rs"
    [ -f "$src/notes.md" ] && cp "$src/notes.md" "$ROOT/seeded/$name/notes.md"
    echo "CONFIRMED $name"
  else
    echo "REJECTED $name"; exit 1
  fi
  ;;
run)
  name="$1"; tier="$2"; shift 2
  if [ -n "$(git -C /repo status --porcelain --untracked-files=no)" ]; then echo "/repo is not clean"; exit 2; fi
  git -C /repo apply "$ROOT/seeded/$name/patch.diff" || exit 2
  for id in "$@"; do
    out=$("$ROOT/check" "$id" "$tier" 2>&1); e=$?
    echo "$name $id $tier exit=$e  $(echo "$out" | grep -E '^VIOLATION' | head -1 | cut -c1-90) $(echo "$out" | grep -E 'class=' | head -1 | cut -c1-200)"
  done
  git -C /repo checkout -- .
  ;;
esac
