#!/bin/bash
# ./run_all.sh <quick|thorough> [ids...]   run checks one after the other, print one line each
cd "$(dirname "$0")"
TIER="${1:-quick}"; shift
IDS="${@:-C01 C02 C03 C04 C05 C06 C07 C08 C09 C10 C11 C12 C13 C14 C15 C16 C17 C18 C19 C20}"
rc=0
for c in $IDS; do
  s=$(date +%s.%N)
  out=$(./check "$c" "$TIER" 2>&1); e=$?
  t=$(echo "$(date +%s.%N) - $s" | bc)
  echo "$out" | grep -E "VIOLATION|KNOWN-FINDING|MACHINERY" | head -6
  echo "$out" | tail -n 1 | cut -c1-260
  echo "   -> $c $TIER exit=$e wall=${t}s"
  if [ "$TIER" = thorough ] && [ $e -eq 0 ]; then cp "evidence/$c.json" "evidence_thorough/$c.json"; fi
  [ $e -ne 0 ] && rc=1
done
exit $rc
