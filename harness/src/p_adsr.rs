//! ADSR: C01 (range / shape / fidelity), C02 (phase order and duration), C03 (continuity)

use crate::common::*;
use crate::explore::*;
use serde_json::{json, Value};
use synth_utils::adsr::{Adsr, Input, State, SustainLevel, TimePeriod};

pub type Finding = (&'static str, &'static str, String);

const TWO24: f64 = 16777216.0;
const FIX: f64 = 1048576.0; // 2^20 fixed point for the accumulated ideal progress
const SLOPE_ATT: f64 = 1.810_603; // (4/3)/(1-e^(-4/3))
const SLOPE_DEC: f64 = 4.074_630; // 4/(1-e^-4)

pub fn att_curve(u: f64) -> f64 {
    (1.0 - (-4.0 * u / 3.0).exp()) / (1.0 - (-4.0f64 / 3.0).exp())
}
pub fn dec_curve(u: f64) -> f64 {
    ((-4.0 * u).exp() - (-4.0f64).exp()) / (1.0 - (-4.0f64).exp())
}

#[derive(Clone, Copy, Debug, PartialEq)]
pub enum AOp {
    Tick,
    GateOn,
    GateOff,
    Attack(f32),
    Decay(f32),
    Release(f32),
    Sustain(f32),
}

const REST: u8 = 0;
const ATTACK: u8 = 1;
const DECAY: u8 = 2;
const SUSTAIN: u8 = 3;
const RELEASE: u8 = 4;
const PH: [&str; 5] = ["rest", "attack", "decay", "sustain", "release"];

fn st_num(s: State) -> u8 {
    match s {
        State::AtRest => REST,
        State::Attack => ATTACK,
        State::Decay => DECAY,
        State::Sustain => SUSTAIN,
        State::Release => RELEASE,
    }
}

#[derive(Clone, Copy, Debug)]
pub struct AModel {
    pub phase: u8,
    pub att: f32,
    pub dec: f32,
    pub rel: f32,
    pub sus: f32,
    pub s_fix: u64,
    pub n: u32,
    pub over: u8,
    pub start: f32,
    pub prev_v: f32,
    pub sus_prev_tick: f32,
    /// sum of |change| over the sustain-level changes made since the previous tick ("any change the caller made")
    pub sus_var: f32,
    pub param_event: bool,
}

#[derive(Clone)]
pub struct AdsrM {
    pub a: Adsr,
    pub fs: f32,
    pub m: AModel,
    pub times: std::sync::Arc<Vec<f32>>,
    pub sustains: std::sync::Arc<Vec<f32>>,
}

impl AdsrM {
    pub fn new(fs: f32, times: Vec<f32>, sustains: Vec<f32>) -> Self {
        let a = Adsr::new(fs);
        AdsrM {
            a,
            fs,
            m: AModel { phase: REST, att: 0.001, dec: 0.001, rel: 0.001, sus: 1.0, s_fix: 0, n: 0, over: 0, start: 0.0, prev_v: a.value(), sus_prev_tick: 1.0, sus_var: 0.0, param_event: false },
            times: std::sync::Arc::new(times),
            sustains: std::sync::Arc::new(sustains),
        }
    }
    fn time_of(&self, ph: u8) -> f32 {
        match ph {
            ATTACK => self.m.att,
            DECAY => self.m.dec,
            _ => self.m.rel,
        }
    }
}

/// upper bound on the change of the output during one tick spent in phase `ph`
fn step_bound(ph: u8, span: f64, x: f64, dsus: f64) -> f64 {
    let slope = match ph {
        ATTACK => SLOPE_ATT,
        DECAY | RELEASE => SLOPE_DEC,
        _ => 0.0,
    };
    if slope == 0.0 || x <= 0.0 {
        return 2.0 * f32::EPSILON as f64 + dsus;
    }
    1.01 * slope * span.abs() * (1.0 / x) + 2.0 * f32::EPSILON as f64 + dsus
}

impl Machine for AdsrM {
    type Op = AOp;
    const NAME: &'static str = "adsr";
    fn config(&self) -> Value {
        json!({"fs": self.fs})
    }
    fn ops(&self, out: &mut Vec<AOp>) {
        out.push(AOp::Tick);
        out.push(AOp::GateOn);
        out.push(AOp::GateOff);
        for t in self.times.iter() {
            out.push(AOp::Attack(*t));
            out.push(AOp::Decay(*t));
            out.push(AOp::Release(*t));
        }
        for s in self.sustains.iter() {
            out.push(AOp::Sustain(*s));
        }
    }
    fn apply(&mut self, op: &AOp, out: &mut StepOut) {
        let mut fnd: Vec<Finding> = Vec::new();
        let v_before = self.a.value();
        let ph0 = self.m.phase;
        match *op {
            AOp::Tick => {
                let timed = ph0 == ATTACK || ph0 == DECAY || ph0 == RELEASE;
                let x = if timed { self.time_of(ph0) as f64 * self.fs as f64 } else { 0.0 };
                self.a.tick();
                let v = self.a.value();
                let st = st_num(self.a.verif_state());
                let u = self.a.verif_phase_bits() as f64 / TWO24;
                out.count("ticks");
                // ---- C02: order and duration
                let next = match ph0 {
                    ATTACK => DECAY,
                    DECAY => SUSTAIN,
                    RELEASE => REST,
                    p => p,
                };
                if st != ph0 && st != next {
                    fnd.push(("C02", "illegal-transition", format!("a tick moved the envelope from {} to {}", PH[ph0 as usize], PH[st as usize])));
                }
                if timed {
                    self.m.s_fix += (TWO24 / x * FIX).round().min(1.0e18) as u64;
                    self.m.n += 1;
                    out.count("ticks_in_timed_phases");
                    let full = (TWO24 * FIX) as u128;
                    if st != ph0 {
                        out.count("phase_ends");
                        if self.m.n > 1 {
                            out.count("phase_ends_after_more_than_one_tick");
                        }
                        // never earlier than the configured duration (2^-22 relative slack for the f32 arithmetic of the increment)
                        let hi = self.m.s_fix as f64 * (1.0 + (2.0f64).powi(-22));
                        if (hi as u128) < full {
                            fnd.push(("C02", "phase-ended-early", format!("{} ended after {} ticks; the configured durations amount to only {:.4} of the phase by then", PH[ph0 as usize], self.m.n, self.m.s_fix as f64 / (TWO24 * FIX))));
                        }
                        self.m.s_fix = 0;
                        self.m.n = 0;
                        self.m.over = 0;
                    } else {
                        // later only by the counter resolution: sum of (ideal increment - 1) >= 2^24, plus two ticks
                        let lo = self.m.s_fix as f64 * (1.0 - (2.0f64).powi(-22)) - self.m.n as f64 * FIX;
                        if lo >= TWO24 * FIX {
                            self.m.over = (self.m.over + 1).min(4);
                            if self.m.over == 3 {
                                fnd.push(("C02", "phase-overdue", format!("{} still running after {} ticks although the configured durations amount to {:.4} of the phase (more than two ticks beyond the counter-resolution bound)", PH[ph0 as usize], self.m.n, self.m.s_fix as f64 / (TWO24 * FIX))));
                            }
                        }
                    }
                }
                // the reference follows the legal phase structure: when the real envelope leaves the phase, the model
                // moves to the legal successor whatever the real one did (C01 / C03 are judged against the model's phase)
                let ph1 = if st == ph0 { ph0 } else { next };
                let start0 = self.m.start;
                self.m.phase = ph1;
                if ph1 == DECAY && ph0 != DECAY {
                    self.m.start = 1.0;
                }
                // ---- C01: range, end levels, monotone, curve
                if !(v >= 0.0 && v <= 1.0) {
                    fnd.push(("C01", "range", format!("value {:?} outside [0, 1] in {}", v, PH[ph1 as usize])));
                }
                let sus = self.m.sus;
                if ph0 == ATTACK && ph1 == DECAY && v != 1.0 {
                    fnd.push(("C01", "attack-end-level", format!("the tick that ends the attack outputs {:?}, not 1.0", v)));
                }
                if ph1 == SUSTAIN && v != sus {
                    fnd.push(("C01", "sustain-level", format!("value {:?} while sustaining at {:?}", v, sus)));
                }
                if ph1 == REST && v != 0.0 {
                    fnd.push(("C01", "rest-level", format!("value {:?} at rest", v)));
                }
                let no_event = !self.m.param_event;
                if ph1 == ph0 && (ph1 == ATTACK || ph1 == DECAY || ph1 == RELEASE) {
                    let start = self.m.start as f64;
                    let ideal = match ph1 {
                        ATTACK => start + (1.0 - start) * att_curve(u),
                        DECAY => sus as f64 + (1.0 - sus as f64) * dec_curve(u),
                        _ => start * dec_curve(u),
                    };
                    let err = (v as f64 - ideal).abs();
                    out.count("curve_points_checked");
                    if !(err <= 0.005) {
                        fnd.push(("C01", "curve", format!("{} at position {:.6} of the phase: value {:?}, documented curve between start {:?} and target gives {:.6}", PH[ph1 as usize], u, v, self.m.start, ideal)));
                    }
                    if no_event {
                        let p = self.m.prev_v;
                        let bad = match ph1 {
                            ATTACK => v < p,
                            _ => v > p,
                        };
                        if bad {
                            fnd.push(("C01", "not-monotone", format!("{}: value moved from {:?} to {:?} against the direction of the phase", PH[ph1 as usize], p, v)));
                        }
                    }
                }
                // ---- C03: continuity
                // "plus any change the caller made to the sustain level in between": granted in every phase
                let dsus = (self.m.sus_var as f64).max((sus as f64 - self.m.sus_prev_tick as f64).abs());
                let span = match ph0 {
                    ATTACK => 1.0 - start0 as f64,
                    DECAY => 1.0 - sus.min(self.m.sus_prev_tick) as f64,
                    RELEASE => start0 as f64,
                    _ => 0.0,
                };
                let bound = step_bound(ph0, span, x, dsus);
                let dv = (v as f64 - self.m.prev_v as f64).abs();
                out.count("steps_checked");
                if !(dv <= bound) {
                    let class = if ph1 != ph0 { "step-at-phase-boundary" } else if self.m.n == 1 && ph0 != DECAY { "step-after-gate-event" } else { "step-inside-phase" };
                    fnd.push(("C03", class, format!("output moved by {:e} in one tick of {} ({:?} -> {:?}); bound {:e} (one tick covers 1/{:.1} of the phase, span {:.4})", dv, PH[ph0 as usize], self.m.prev_v, v, bound, x, span)));
                }
                self.m.prev_v = v;
                self.m.sus_prev_tick = sus;
                self.m.sus_var = 0.0;
                self.m.param_event = false;
                out.obs = (ph1 as u64) << 32 | v.to_bits() as u64;
            }
            AOp::GateOn => {
                self.a.gate_on();
                if ph0 != ATTACK {
                    self.m.phase = ATTACK;
                    self.m.start = self.a.value();
                    self.m.s_fix = 0;
                    self.m.n = 0;
                    self.m.over = 0;
                    out.count("gate_on_accepted");
                    if ph0 != REST {
                        out.count("retriggers_from_a_running_envelope");
                    }
                } else {
                    out.count("gate_on_ignored_in_attack");
                }
            }
            AOp::GateOff => {
                self.a.gate_off();
                if ph0 == ATTACK || ph0 == DECAY || ph0 == SUSTAIN {
                    self.m.phase = RELEASE;
                    self.m.start = self.a.value();
                    self.m.s_fix = 0;
                    self.m.n = 0;
                    self.m.over = 0;
                    out.count("gate_off_accepted");
                } else {
                    out.count("gate_off_ignored");
                }
            }
            AOp::Attack(t) => {
                self.a.set_input(Input::Attack(t.into()));
                self.m.att = TimePeriod::from(t).into();
                self.m.param_event = true;
                if ph0 == ATTACK && self.m.n > 0 {
                    out.count("time_changed_inside_its_phase");
                }
            }
            AOp::Decay(t) => {
                self.a.set_input(Input::Decay(t.into()));
                self.m.dec = TimePeriod::from(t).into();
                self.m.param_event = true;
                if ph0 == DECAY && self.m.n > 0 {
                    out.count("time_changed_inside_its_phase");
                }
            }
            AOp::Release(t) => {
                self.a.set_input(Input::Release(t.into()));
                self.m.rel = TimePeriod::from(t).into();
                self.m.param_event = true;
                if ph0 == RELEASE && self.m.n > 0 {
                    out.count("time_changed_inside_its_phase");
                }
            }
            AOp::Sustain(s) => {
                self.a.set_input(Input::Sustain(s.into()));
                let new_sus: f32 = SustainLevel::from(s).into();
                self.m.sus_var += (new_sus - self.m.sus).abs();
                self.m.sus = new_sus;
                self.m.param_event = true;
            }
        }
        if !matches!(op, AOp::Tick | AOp::Sustain(_)) {
            // a gate event or a time change by itself never changes the output (the new segment starts from the level
            // being output); a sustain change may show at once: the statement bounds tick-to-tick changes only and
            // adds the caller's sustain changes to the bound
            if self.a.value().to_bits() != v_before.to_bits() {
                fnd.push(("C03", "event-changes-output", format!("{} changed the output from {:?} to {:?} without a tick", Self::op_str(op), v_before, self.a.value())));
            }
        }
        let st = st_num(self.a.verif_state());
        if st != self.m.phase {
            fnd.push(("C02", "phase-after-event", format!("after {} in {} the envelope is in {}, expected {}", Self::op_str(op), PH[ph0 as usize], PH[st as usize], PH[self.m.phase as usize])));
        }
        for (p, c, d) in fnd {
            out.flag(p, c, d);
        }
    }
    fn key(&self) -> u128 {
        let mut h = Hash128::new();
        for w in self.a.verif_key() {
            h.word(w as u64);
        }
        let m = &self.m;
        h.word(m.phase as u64 | (m.over as u64) << 8 | (m.param_event as u64) << 16 | (m.n as u64) << 32);
        h.word(m.s_fix);
        h.word(m.att.to_bits() as u64 | (m.dec.to_bits() as u64) << 32);
        h.word(m.rel.to_bits() as u64 | (m.sus.to_bits() as u64) << 32);
        h.word(m.start.to_bits() as u64 | (m.prev_v.to_bits() as u64) << 32);
        h.word(m.sus_prev_tick.to_bits() as u64);
        h.word(m.sus_var.to_bits() as u64);
        h.finish()
    }
    fn fork(&self) -> Self {
        self.clone()
    }
    fn op_str(op: &AOp) -> String {
        match op {
            AOp::Tick => "tick".into(),
            AOp::GateOn => "gate_on".into(),
            AOp::GateOff => "gate_off".into(),
            AOp::Attack(t) => format!("attack:{:?}", t),
            AOp::Decay(t) => format!("decay:{:?}", t),
            AOp::Release(t) => format!("release:{:?}", t),
            AOp::Sustain(t) => format!("sustain:{:?}", t),
        }
    }
}

pub fn parse_op(s: &str) -> AOp {
    match s {
        "tick" => AOp::Tick,
        "gate_on" => AOp::GateOn,
        "gate_off" => AOp::GateOff,
        _ => {
            let (a, b) = s.split_once(':').expect("adsr op");
            let v = parse_f32(b);
            match a {
                "attack" => AOp::Attack(v),
                "decay" => AOp::Decay(v),
                "release" => AOp::Release(v),
                "sustain" => AOp::Sustain(v),
                _ => panic!("unknown adsr op {}", s),
            }
        }
    }
}

pub fn replay(config: &Value, ops: &[String]) -> Vec<String> {
    let fs = config["fs"].as_f64().unwrap_or(1000.0) as f32;
    let mut m = AdsrM::new(fs, vec![], vec![]);
    run_script(&mut m, ops, &parse_op, &|m: &AdsrM| format!("phase={} position={}/2^24 value={:?}", PH[st_num(m.a.verif_state()) as usize], m.a.verif_phase_bits(), m.a.value()))
}

// ------------------------------------------------------------------ (H) history exploration

fn explore_h(ctx: &Ctx, rep: &mut Report, props: &[&'static str]) {
    let thorough = ctx.tier.is_thorough();
    let d1 = if thorough { 14 } else { 10 };
    let m = AdsrM::new(1000.0, vec![0.001, 0.002, 0.003, 0.005], vec![0.0, 0.3, 0.5, 1.0]);
    explore(m, &ExploreCfg { max_depth: Some(d1), state_cap: 80_000_000, threads: ctx.threads, label: format!("gate/tick/set_input histories at 1 kHz, phases of 1-6 ticks, depth {}", d1) }, rep, props);
    let d2 = if thorough { 9 } else { 7 };
    let m = AdsrM::new(100.0, vec![0.001, 0.002, 0.005, 0.03], vec![0.0, 0.5, 1.0]);
    explore(m, &ExploreCfg { max_depth: Some(d2), state_cap: 80_000_000, threads: ctx.threads, label: format!("histories at 100 Hz (phases shorter than one sample), depth {}", d2) }, rep, props);
    // fewer parameter operations, deeper: longer runs of ticks and gate events
    let d3 = if thorough { 26 } else { 18 };
    let m = AdsrM::new(1000.0, vec![0.004], vec![0.4]);
    explore(m, &ExploreCfg { max_depth: Some(d3), state_cap: 80_000_000, threads: ctx.threads, label: format!("gate/tick histories at 1 kHz with one time and one sustain level, depth {}", d3) }, rep, props);
    // out-of-range and non-finite parameter values (they must act as the clamped value: C20; here every other
    // oracle keeps running on envelopes configured that way)
    let d4 = if thorough { 8 } else { 6 };
    let m = AdsrM::new(1000.0, vec![f32::NAN, -1.0, 0.0, 1.0e9, f32::INFINITY, 0.003], vec![f32::NAN, -0.5, 2.0, f32::NEG_INFINITY, 0.25]);
    explore(m, &ExploreCfg { max_depth: Some(d4), state_cap: 80_000_000, threads: ctx.threads, label: format!("histories with out-of-range / NaN parameter values at 1 kHz, depth {}", d4) }, rep, props);
    rep.exhaustive = false;
}

// ------------------------------------------------------------------ (S) phase sweeps

const LEVELS: [f32; 14] = [0.0, 5.9604645e-8, 1.0e-6, 0.001, 0.1, 0.25, 0.333_333_34, 0.5, 0.666_666_7, 0.75, 0.9, 0.999, 0.999_999_94, 1.0];

/// Bring a fresh envelope to the start of `phase` with level `lv` (start level for
/// attack / release, sustain target for decay) through the public API; the script is recorded.
fn prelude(m: &mut AdsrM, script: &mut Vec<String>, phase: u8, lv: f32, props: &[&'static str], lc: &mut LocalCounts) -> bool {
    let ops = vec![format!("sustain:{:?}", lv), "attack:0.001".to_string(), "decay:0.001".to_string(), "release:0.001".to_string(), "gate_on".to_string()];
    if !drive(m, script, &ops, props, lc) {
        return false;
    }
    let want = if phase == DECAY { DECAY } else { SUSTAIN };
    let limit = (0.001f64 * m.fs as f64).ceil() as u64 * 3 + 24;
    let mut n = 0u64;
    let mut scratch = Vec::new();
    while m.m.phase != want && n < limit {
        if !drive(m, &mut scratch, &["tick".to_string()], props, lc) {
            return false;
        }
        n += 1;
    }
    script.push(format!("tick*{}", n));
    if m.m.phase != want {
        lc.count("preludes_that_did_not_reach_their_phase", 1);
        return false;
    }
    match phase {
        ATTACK => drive(m, script, &["gate_on".to_string()], props, lc),
        RELEASE => drive(m, script, &["gate_off".to_string()], props, lc),
        _ => true,
    }
}

fn phase_time_op(phase: u8, t: f32) -> String {
    format!("{}:{:?}", ["", "attack", "decay", "", "release"][phase as usize], t)
}

/// Drive machine through a script, forwarding flags to lc with the script so far as replay.
fn drive(m: &mut AdsrM, script: &mut Vec<String>, ops: &[String], props: &[&'static str], lc: &mut LocalCounts) -> bool {
    for (o, n) in expand_ops(ops) {
        let op = parse_op(&o);
        for i in 0..n {
            let mut out = StepOut::new();
            let r = std::panic::catch_unwind(std::panic::AssertUnwindSafe(|| m.apply(&op, &mut out)));
            if let Err(e) = r {
                let mut s = script.clone();
                s.push(format!("{}*{}", o, i + 1));
                for p in props {
                    lc.violation(Violation { prop: p, class: "panic".into(), detail: format!("the real code panicked: {}", panic_msg(&e)), machine: "adsr", config: m.config(), ops: s.clone() });
                }
                return false;
            }
            for (k, c) in out.counts {
                lc.count(k, c);
            }
            for f in out.flags {
                if props.contains(&f.prop) {
                    let already = lc.per_class.get(&f.class).copied().unwrap_or(0);
                    let s = if already < PER_CLASS_CAP {
                        let mut s = script.clone();
                        s.push(format!("{}*{}", o, i + 1));
                        s
                    } else {
                        Vec::new()
                    };
                    lc.violation(Violation { prop: f.prop, class: f.class, detail: f.detail, machine: "adsr", config: m.config(), ops: s });
                }
            }
        }
        script.push(if n == 1 { o } else { format!("{}*{}", o, n) });
    }
    true
}

fn probe_increment(fs: f32, t: f32) -> u64 {
    let mut a = Adsr::new(fs);
    a.set_input(Input::Attack(t.into()));
    a.gate_on();
    a.tick();
    a.verif_key()[7] as u64
}

/// all 2^24 positions of every timed phase at the smallest in-range increment (4), 14 levels
/// `slice`: only ~40 segments spread over each phase (first, last and every k-th) and three levels (quick tier)
fn sweep_all_positions(ctx: &Ctx, rep: &mut Report, props: &[&'static str], fs: f32, slice: bool) {
    let inc_fast = probe_increment(fs, 0.001);
    let inc_slow = probe_increment(fs, 20.0);
    if inc_slow == 0 || inc_fast % inc_slow == 0 || inc_fast == 0 {
        rep.machinery(format!("sweep construction needs coprime-ish increments, got fast {} slow {}", inc_fast, inc_slow));
        return;
    }
    // residues: `r` coarse ticks give residue r*inc_fast mod inc_slow; with gcd(inc_fast, inc_slow) = 1 these are all residues
    let nres = inc_slow;
    let nseg = (16777216 / (inc_fast * nres)) + 1;
    let jobs: u64 = 3 * 14 * nseg * nres;
    let pv: Vec<&'static str> = props.to_vec();
    let pr = &pv;
    par_ranges(ctx, rep, jobs, jobs, |_, lo, hi, lc| {
        for j in lo..hi {
            let phase = [ATTACK, DECAY, RELEASE][(j / (14 * nseg * nres)) as usize];
            let lv = LEVELS[((j / (nseg * nres)) % 14) as usize];
            let seg = (j / nres) % nseg;
            let r = j % nres;
            if slice {
                let li = (j / (nseg * nres)) % 14;
                let k = (nseg / 36).max(1);
                if !(li == 0 || li == 6 || li == 13) || !(seg % k == 0 || seg < 2 || seg + 3 >= nseg) {
                    continue;
                }
            }
            let mut m = AdsrM::new(fs, vec![], vec![]);
            let mut script: Vec<String> = Vec::new();
            if !prelude(&mut m, &mut script, phase, lv, pr, lc) {
                continue;
            }
            // coarse jumps: phase time 1 ms -> increment inc_fast per tick
            let jumps = nres * seg + r;
            if jumps * inc_fast >= 16777216 {
                continue;
            }
            let mut ops = vec![phase_time_op(phase, 0.001)];
            if jumps > 0 {
                ops.push(format!("tick*{}", jumps));
            }
            ops.push(phase_time_op(phase, 20.0));
            if !drive(&mut m, &mut script, &ops, pr, lc) {
                continue;
            }
            let start_pos = m.a.verif_phase_bits() as u64;
            if m.m.phase != phase || start_pos != jumps * inc_fast {
                // the envelope did not behave as the sweep construction assumes: the oracles have already flagged why
                lc.count("sweep_segments_not_reached", 1);
                continue;
            }
            // walk with the slow increment to the start position of the next segment
            let target = (jumps + nres) * inc_fast;
            let nticks = (target.min(16777216) - start_pos + inc_slow - 1) / inc_slow;
            if !drive(&mut m, &mut script, &[format!("tick*{}", nticks)], pr, lc) {
                continue;
            }
            lc.count("positions_visited", nticks);
            lc.count("sweep_segments", 1);
            // overlap: the same position reached through a different history must give the same output
            if target < 16777216 && m.m.phase == phase {
                let mut m2 = AdsrM::new(fs, vec![], vec![]);
                let mut s2: Vec<String> = Vec::new();
                let mut sink = LocalCounts::default();
                if prelude(&mut m2, &mut s2, phase, lv, pr, &mut sink) {
                    drive(&mut m2, &mut s2, &[phase_time_op(phase, 0.001), format!("tick*{}", jumps + nres)], pr, &mut sink);
                    if m2.a.verif_phase_bits() == m.a.verif_phase_bits() && m2.m.phase == phase {
                        lc.count("overlap_positions_compared", 1);
                        if (m2.a.value() as f64 - m.a.value() as f64).abs() > 4.0 * f32::EPSILON as f64 && pr.contains(&"C01") {
                            lc.violation(Violation { prop: "C01", class: "history-dependent-value".into(), detail: format!("position {} of {} with level {:?}: value {:?} when walked slowly, {:?} when reached by coarse ticks", target, PH[phase as usize], lv, m.a.value(), m2.a.value()), machine: "adsr", config: m.config(), ops: script.clone() });
                        }
                    }
                }
            }
        }
    });
    let n = rep.counters.get("positions_visited").copied().unwrap_or(0);
    rep.subruns.push(json!({"engine": "E2-sweep", "what": if slice { "a slice (about 40 segments per phase, 3 levels) of the accumulator positions of every timed phase at a smallest in-range increment, all residues" } else { "every accumulator position of every timed phase at the smallest in-range increment (192 kHz, 20 s), all residues" }, "fs": fs, "slow_increment": inc_slow, "coarse_increment": inc_fast, "levels": LEVELS, "ticks": n}));
    if rep.counters.get("sweep_segments").copied().unwrap_or(0) == 0 {
        rep.machinery("no sweep segment was reached".into());
    }
}

/// find an integer sample rate at which period `t` gives increment `want` (or, if the implementation's increments
/// cannot take that value, the nearest one it can take)
fn rate_for_increment(t: f32, want: u32) -> Option<f32> {
    let ideal = TWO24 / (t as f64 * (want as f64 + 0.5));
    let mut best: Option<(u32, f32)> = None;
    for d in 0..2000i64 {
        for s in [1i64, -1] {
            let fs = (ideal.round() as i64 + s * d) as f32;
            if !(fs >= 100.0 && fs <= 192000.0) {
                continue;
            }
            let mut a = Adsr::new(fs);
            a.set_input(Input::Attack(t.into()));
            a.gate_on();
            a.tick();
            let inc = a.verif_key()[7];
            if inc == want {
                return Some(fs);
            }
            let dist = inc.abs_diff(want);
            if best.map(|b| dist < b.0).unwrap_or(true) {
                best = Some((dist, fs));
            }
        }
    }
    best.map(|b| b.1)
}

/// complete walks through each phase at selected increments (one table cell per tick +-1, ~64, short phases)
fn sweep_increments(ctx: &Ctx, rep: &mut Report, props: &[&'static str]) {
    let thorough = ctx.tier.is_thorough();
    let mut configs: Vec<(f32, f32, String)> = Vec::new(); // (fs, T, label)
    for (t, want) in [(0.01f32, 16383u32), (0.01, 16384), (0.01, 16385), (2.0, 64), (2.0, 63), (1.0, 1000)] {
        match rate_for_increment(t, want) {
            Some(fs) => configs.push((fs, t, format!("increment {}", want))),
            None => rep.count("increments_not_reachable", 1),
        }
    }
    configs.push((1000.0, 0.003, "3-tick phase".into()));
    configs.push((1000.0, 0.002, "2-tick phase".into()));
    configs.push((1000.0, 0.001, "1-tick phase".into()));
    configs.push((44100.0, 0.5, "44.1 kHz, 0.5 s".into()));
    if thorough {
        configs.push((48000.0, 1.0, "48 kHz, 1 s".into()));
        configs.push((96000.0, 3.0, "96 kHz, 3 s".into()));
        configs.push((192000.0, 0.001, "192 kHz, 1 ms".into()));
        configs.push((100.0, 20.0, "100 Hz, 20 s".into()));
    }
    let jobs = configs.len() as u64 * 14 * 3;
    let cr = &configs;
    let pv: Vec<&'static str> = props.to_vec();
    let pr = &pv;
    par_ranges(ctx, rep, jobs, jobs, |_, lo, hi, lc| {
        for j in lo..hi {
            let (fs, t, _) = &cr[(j / 42) as usize];
            let lv = LEVELS[((j / 3) % 14) as usize];
            let phase = [ATTACK, DECAY, RELEASE][(j % 3) as usize];
            let mut m = AdsrM::new(*fs, vec![], vec![]);
            let mut script: Vec<String> = Vec::new();
            if !prelude(&mut m, &mut script, phase, lv, pr, lc) {
                continue;
            }
            if !drive(&mut m, &mut script, &[phase_time_op(phase, *t)], pr, lc) {
                continue;
            }
            let x = (*t as f64 * *fs as f64).ceil() as u64;
            let limit = x + x / 1000 + 16;
            let mut n = 0u64;
            while m.m.phase == phase && n < limit {
                if !drive(&mut m, &mut Vec::new(), &["tick".to_string()], pr, lc) {
                    break;
                }
                n += 1;
            }
            script.push(format!("tick*{}", n));
            lc.count("positions_visited", n);
            lc.count("phase_walks", 1);
            if m.m.phase == phase {
                lc.count("phase_walks_not_finished", 1);
            }
            // continue into the following phases so that the boundaries are crossed as well
            drive(&mut m, &mut script, &["tick*8".to_string()], pr, lc);
        }
    });
    rep.subruns.push(json!({"engine": "E2-sweep", "what": "complete walks through attack, decay and release at selected increments", "configs": configs.iter().map(|c| json!({"fs": c.0, "T": c.1, "label": c.2})).collect::<Vec<_>>(), "levels": 14}));
}

/// (M) events at a lattice of positions inside slow phases: for every timed phase, 14 levels, several sample rates
/// and a lattice of positions inside the phase, one event (gate_on, gate_off, two time changes, two sustain
/// changes, or a pair of them) is applied and the envelope is then ticked through to rest, all oracles running.
fn sweep_mid_phase_events(ctx: &Ctx, rep: &mut Report, props: &[&'static str]) {
    let thorough = ctx.tier.is_thorough();
    let configs: Vec<(f32, f32)> = if thorough { vec![(1000.0, 0.5), (44100.0, 0.02), (48000.0, 0.1), (192000.0, 0.004), (8000.0, 0.1), (22050.0, 0.03), (100.0, 3.0), (96000.0, 0.2)] } else { vec![(1000.0, 0.3), (44100.0, 0.01), (192000.0, 0.002), (48000.0, 0.1)] };
    let npos: u64 = if thorough { 48 } else { 16 };
    let events: Vec<Vec<String>> = vec![
        vec!["gate_on".into()],
        vec!["gate_off".into()],
        vec!["gate_off".into(), "gate_on".into()],
        vec!["sustain:0.9".into()],
        vec!["sustain:0.05".into(), "gate_on".into()],
        vec!["sustain:0.6".into(), "gate_off".into()],
        vec!["attack:0.05".into(), "decay:0.05".into(), "release:0.05".into()],
        vec!["attack:0.0013".into(), "decay:0.0013".into(), "release:0.0013".into()],
        vec!["gate_on".into(), "tick".into(), "gate_off".into(), "tick".into(), "gate_on".into()],
        vec!["nudge:1.002".into()],
        vec!["nudge:0.9982".into()],
    ];
    let levels: Vec<f32> = if thorough { LEVELS.to_vec() } else { vec![0.0, 0.001, 0.25, 0.5, 0.9, 1.0] };
    let jobs = configs.len() as u64 * 3 * levels.len() as u64 * npos * events.len() as u64;
    let cr = &configs;
    let er = &events;
    let lr = &levels;
    let pv: Vec<&'static str> = props.to_vec();
    let pr = &pv;
    par_ranges(ctx, rep, jobs, 2048, |_, lo, hi, lc| {
        for j in lo..hi {
            let mut x = j;
            let ev = &er[(x % er.len() as u64) as usize];
            x /= er.len() as u64;
            let pos = x % npos;
            x /= npos;
            let lv = lr[(x % lr.len() as u64) as usize];
            x /= lr.len() as u64;
            let phase = [ATTACK, DECAY, RELEASE][(x % 3) as usize];
            x /= 3;
            let (fs, t) = cr[x as usize];
            let mut m = AdsrM::new(fs, vec![], vec![]);
            let mut script: Vec<String> = Vec::new();
            if !prelude(&mut m, &mut script, phase, lv, pr, lc) {
                continue;
            }
            let total = (t as f64 * fs as f64) as u64;
            // positions spread over the phase, not aligned with table cells
            let n = 1 + (total * (2 * pos + 1)) / (2 * npos) + (pos % 3);
            let mut ops = vec![phase_time_op(phase, t), format!("tick*{}", n.min(total + 2))];
            for e in ev.iter() {
                if let Some(k) = e.strip_prefix("nudge:") {
                    // all three times moved by a fraction of a percent in mid-phase: the remainder is rescaled
                    let k: f32 = k.parse().unwrap();
                    ops.push(format!("attack:{:?}", t * k));
                    ops.push(format!("decay:{:?}", 0.001f32 * k));
                    ops.push(format!("release:{:?}", 0.001f32 * k));
                    ops.push(phase_time_op(phase, t * k));
                } else {
                    ops.push(e.clone());
                }
            }
            // run to the end of everything: remaining phases at the configured times
            ops.push(format!("tick*{}", 2 * total + 40));
            ops.push("gate_off".into());
            ops.push(format!("tick*{}", total + (0.06 * fs as f64) as u64 + 40));
            if !drive(&mut m, &mut script, &ops, pr, lc) {
                continue;
            }
            lc.count("mid_phase_event_runs", 1);
            if m.m.phase != REST {
                lc.count("mid_phase_event_runs_not_at_rest_at_the_end", 1);
            }
        }
    });
    // the same with the phase ENTERED by the gate event slow as well (all three times equal and long): the first tick of
    // the new segment may then move by a few 1e-5 only, so a segment that starts from anything but the level being
    // output shows; positions include the first and the last percent of the phase (release tails, attack tops)
    {
        let configs2: Vec<(f32, f32)> = if thorough { vec![(192000.0, 0.5), (48000.0, 2.0), (1000.0, 20.0)] } else { vec![(192000.0, 0.5)] };
        let fracs: [f64; 8] = [0.003, 0.02, 0.25, 0.6, 0.9, 0.97, 0.99, 0.999];
        let gate_events: [&[&str]; 4] = [&["gate_on"], &["gate_off"], &["gate_off", "gate_on"], &["gate_on", "tick", "gate_off", "tick", "gate_on"]];
        let lv2: [f32; 4] = [0.001, 0.25, 0.9, 1.0];
        let jobs2 = (configs2.len() * 3 * lv2.len() * fracs.len() * gate_events.len()) as u64;
        let c2 = &configs2;
        par_ranges(ctx, rep, jobs2, jobs2, |_, lo, hi, lc| {
            for j in lo..hi {
                let mut x = j as usize;
                let ev = gate_events[x % 4];
                x /= 4;
                let fr = fracs[x % 8];
                x /= 8;
                let lv = lv2[x % 4];
                x /= 4;
                let phase = [ATTACK, DECAY, RELEASE][x % 3];
                x /= 3;
                let (fs, t) = c2[x];
                let mut m = AdsrM::new(fs, vec![], vec![]);
                let mut script: Vec<String> = Vec::new();
                if !prelude(&mut m, &mut script, phase, lv, pr, lc) {
                    continue;
                }
                let total = (t as f64 * fs as f64) as u64;
                let n = ((total as f64 * fr) as u64).max(1);
                let mut ops = vec![format!("attack:{:?}", t), format!("decay:{:?}", t), format!("release:{:?}", t), format!("tick*{}", n)];
                ops.extend(ev.iter().map(|e| e.to_string()));
                ops.push(format!("tick*{}", 2 * total + 40));
                ops.push("gate_off".into());
                ops.push(format!("tick*{}", total + 40));
                if !drive(&mut m, &mut script, &ops, pr, lc) {
                    continue;
                }
                lc.count("mid_phase_event_runs", 1);
                lc.count("mid_phase_event_runs_with_a_slow_following_phase", 1);
            }
        });
    }
    rep.subruns.push(json!({"engine": "E2-sweep", "what": "one event (or event pair) applied at a lattice of positions inside each slow phase, then run to rest", "configs": configs.iter().map(|c| json!({"fs": c.0, "T": c.1})).collect::<Vec<_>>(), "positions_per_phase": npos, "events": events, "levels": levels.len(), "runs": jobs}));
}

/// the sustain level moved in small steps, one step per tick, while sustaining and while decaying
fn sweep_sustain_creep(ctx: &Ctx, rep: &mut Report, props: &[&'static str]) {
    let deltas: [f32; 7] = [1.0e-4, -1.0e-4, 2.0e-5, 2.4e-4, -2.5e-4, 1.0e-6, 3.0e-3];
    let jobs = 14 * deltas.len() as u64 * 2;
    let pv: Vec<&'static str> = props.to_vec();
    let pr = &pv;
    par_ranges(ctx, rep, jobs, jobs, |_, lo, hi, lc| {
        for j in lo..hi {
            let lv = LEVELS[(j % 14) as usize];
            let d = deltas[((j / 14) % deltas.len() as u64) as usize];
            let in_decay = j / (14 * deltas.len() as u64) == 1;
            let mut m = AdsrM::new(1000.0, vec![], vec![]);
            let mut script: Vec<String> = Vec::new();
            let mut ops = vec![format!("sustain:{:?}", lv), "attack:0.002".to_string(), format!("decay:{}", if in_decay { "0.2" } else { "0.002" }), "release:0.003".to_string(), "gate_on".to_string(), format!("tick*{}", if in_decay { 40 } else { 12 })];
            let mut s = lv;
            for _ in 0..40 {
                s = (s - d).max(0.0).min(1.0);
                ops.push(format!("sustain:{:?}", s));
                ops.push("tick".to_string());
            }
            ops.push("gate_off".into());
            ops.push("tick*8".into());
            drive(&mut m, &mut script, &ops, pr, lc);
            lc.count("sustain_creep_runs", 1);
        }
    });
}

/// many short notes in a row (more gate events and phase ends than a 16-bit counter holds), all oracles running
fn sweep_many_notes(ctx: &Ctx, rep: &mut Report, props: &[&'static str]) {
    let pv: Vec<&'static str> = props.to_vec();
    let pr = &pv;
    let notes: u64 = if ctx.tier.is_thorough() { 70_000 } else { 66_000 };
    par_ranges(ctx, rep, 4, 4, |_, lo, hi, lc| {
        for j in lo..hi {
            let mut m = AdsrM::new(1000.0, vec![], vec![]);
            let mut script: Vec<String> = Vec::new();
            let pre = vec!["attack:0.002".to_string(), "decay:0.002".to_string(), "sustain:0.5".to_string(), "release:0.002".to_string()];
            if !drive(&mut m, &mut script, &pre, pr, lc) {
                continue;
            }
            let cycle: Vec<String> = match j {
                0 => vec!["gate_on".into(), "tick*7".into(), "gate_off".into(), "tick*4".into()],
                1 => vec!["gate_on".into(), "tick".into(), "gate_off".into(), "tick".into()],
                2 => vec!["gate_on".into(), "tick*2".into(), "gate_on".into(), "tick*3".into(), "gate_off".into(), "gate_off".into(), "tick*2".into()],
                _ => vec!["gate_on".into(), "tick*3".into(), "sustain:0.25".into(), "tick*3".into(), "sustain:0.5".into(), "gate_off".into(), "tick*5".into()],
            };
            let mut ok = true;
            for n in 0..notes {
                let mut scratch: Vec<String> = Vec::new();
                let before = lc.viol_total;
                if !drive(&mut m, &mut scratch, &cycle, pr, lc) || lc.viol_total != before {
                    // make the replay exact: the cycle repeated n+1 times
                    if let Some(v) = lc.viols.last_mut() {
                        let mut ops = pre.clone();
                        for _ in 0..=n.min(200_000) {
                            ops.extend(cycle.iter().cloned());
                        }
                        v.ops = ops;
                    }
                    ok = false;
                    break;
                }
            }
            let _ = ok;
            lc.count("notes_played_in_a_row", notes);
        }
    });
}

fn sweeps(ctx: &Ctx, rep: &mut Report, props: &[&'static str]) {
    sweep_sustain_creep(ctx, rep, props);
    sweep_many_notes(ctx, rep, props);
    sweep_increments(ctx, rep, props);
    sweep_mid_phase_events(ctx, rep, props);
    if ctx.tier.is_thorough() {
        sweep_all_positions(ctx, rep, props, 192000.0, false);
        sweep_all_positions(ctx, rep, props, 160000.0, true);
    } else {
        // the slowest legal envelopes (increments 4 and 5 per tick), where the per-tick change approaches one f32 ulp
        sweep_all_positions(ctx, rep, props, 192000.0, true);
        sweep_all_positions(ctx, rep, props, 160000.0, true);
    }
    let n = rep.counters.get("ticks").copied().unwrap_or(0);
    rep.states += n;
    rep.transitions += n;
    rep.traces += n;
    rep.evaluations += n;
}

pub fn c01(ctx: &Ctx) -> Report {
    let mut rep = Report::new();
    rep.rule.push("(S) E2: the real envelope is walked through attack, decay and release for 14 start / sustain levels: thorough = every one of the 2^24 accumulator positions of each phase (increment 4 at 192 kHz / 20 s, all four residues, reached through the public API), quick = complete walks at increments 63, 64, 1000, 16383-16385 and 1-3 tick phases; (H) E1: bounded-depth BFS over tick / gate_on / gate_off / set_input histories; at every tick: range, exact end levels, monotone between events, within 0.005 of the documented RC curve stretched between the observed start level and the target; non-trivial = curve points checked inside a timed phase".into());
    sweeps(ctx, &mut rep, &["C01"]);
    explore_h(ctx, &mut rep, &["C01"]);
    rep.nontrivial = rep.counters.get("curve_points_checked").copied().unwrap_or(0);
    rep.require_nonzero("curve_points_checked");
    rep.require_nonzero("retriggers_from_a_running_envelope");
    rep.sample(json!({"script": {"machine": "adsr", "config": {"fs": 192000.0}, "ops": ["sustain:0.25", "attack:0.001", "decay:0.001", "release:0.001", "gate_on", "tick*386", "gate_on", "attack:20.0", "tick*87381"]}, "meaning": "an attack started from exactly 0.25, walked at the smallest increment"}));
    rep.assumptions.push("phase position is read through the verif_phase_bits hook; start levels are observed at the gate event through value()".into());
    rep
}

pub fn c03(ctx: &Ctx) -> Report {
    let mut rep = Report::new();
    rep.rule.push("same exploration as C01 ((S) phase walks incl. every adjacent pair of accumulator positions at the slowest in-range envelope in the thorough tier, (H) bounded-depth histories); at every tick |delta value| <= 1.01 * steepest slope of the active curve * span * fraction of the phase per tick + 2*2^-23 + |delta sustain|; gate and parameter events must not change the output by themselves; non-trivial = ticks checked inside timed phases".into());
    sweeps(ctx, &mut rep, &["C03"]);
    explore_h(ctx, &mut rep, &["C03"]);
    rep.nontrivial = rep.counters.get("ticks_in_timed_phases").copied().unwrap_or(0);
    rep.require_nonzero("steps_checked");
    rep.require_nonzero("retriggers_from_a_running_envelope");
    rep
}

// ------------------------------------------------------------------ C02: configuration plane

/// run one envelope through attack, decay, release; count ticks per phase; check against the duration bounds
pub fn run_config(fs: f32, t: f32, lc: &mut LocalCounts, cap_extra: u64) -> bool {
    run_config_pre(fs, t, None, lc, cap_extra)
}

/// as run_config, but every time is first set to `pre` and then to `t` (the later value must win, however close)
pub fn run_config_pre(fs: f32, t: f32, pre: Option<f32>, lc: &mut LocalCounts, cap_extra: u64) -> bool {
    let tc: f32 = TimePeriod::from(t).into();
    let x = tc as f64 * fs as f64;
    let kmin = ((x * (1.0 - (2.0f64).powi(-22))).ceil() as u64).max(1);
    let kmax = (x / (1.0 - x / TWO24) + 2.0).floor() as u64;
    let mut a = Adsr::new(fs);
    if let Some(p) = pre {
        a.set_input(Input::Attack(p.into()));
        a.set_input(Input::Decay(p.into()));
        a.set_input(Input::Release(p.into()));
    }
    a.set_input(Input::Attack(t.into()));
    a.set_input(Input::Decay(t.into()));
    a.set_input(Input::Release(t.into()));
    a.set_input(Input::Sustain(0.5.into()));
    let mut ok = true;
    let mut phases: [u64; 3] = [0; 3];
    a.gate_on();
    for (pi, (st, next)) in [(State::Attack, State::Decay), (State::Decay, State::Sustain), (State::Release, State::AtRest)].iter().enumerate() {
        if pi == 2 {
            a.gate_off();
        }
        let mut k = 0u64;
        while a.verif_state() == *st && k <= kmax + cap_extra {
            a.tick();
            k += 1;
        }
        phases[pi] = k;
        lc.count("phases_timed", 1);
        let script = |n: u64| -> Vec<String> {
            let mut s: Vec<String> = Vec::new();
            if let Some(p) = pre {
                s.extend([format!("attack:{:?}", p), format!("decay:{:?}", p), format!("release:{:?}", p)]);
            }
            s.extend([format!("attack:{:?}", t), format!("decay:{:?}", t), format!("release:{:?}", t), "sustain:0.5".to_string(), "gate_on".to_string()]);
            let mut total = 0;
            for q in 0..pi {
                total += phases[q];
            }
            if total > 0 {
                s.push(format!("tick*{}", total));
            }
            if pi == 2 {
                s.push("gate_off".into());
            }
            s.push(format!("tick*{}", n));
            s
        };
        if a.verif_state() == *st {
            lc.violation(Violation { prop: "C02", class: "phase-never-ends".into(), detail: format!("fs={} Hz, T={:?} s: {:?} still running after {} ticks (upper bound {})", fs, tc, st, k, kmax), machine: "adsr", config: json!({"fs": fs}), ops: script(kmax.min(2000) + 4) });
            return false;
        }
        if a.verif_state() != *next {
            lc.violation(Violation { prop: "C02", class: "illegal-transition".into(), detail: format!("fs={} Hz, T={:?} s: {:?} was followed by {:?}", fs, tc, st, a.verif_state()), machine: "adsr", config: json!({"fs": fs}), ops: script(k) });
            return false;
        }
        if k < kmin {
            ok = false;
            lc.violation(Violation { prop: "C02", class: "phase-ended-early".into(), detail: format!("fs={} Hz, T={:?} s ({:.3} ticks): {:?} lasted {} ticks, fewer than {}", fs, tc, x, st, k, kmin), machine: "adsr", config: json!({"fs": fs}), ops: script(k) });
        }
        if k > kmax {
            ok = false;
            lc.violation(Violation { prop: "C02", class: "phase-overdue".into(), detail: format!("fs={} Hz, T={:?} s ({:.3} ticks): {:?} lasted {} ticks, more than N/(1-N/2^24)+2 = {}", fs, tc, x, st, k, kmax), machine: "adsr", config: json!({"fs": fs}), ops: script(k) });
        }
        lc.maxf("max_ticks_over_configured", k as f64 - x);
        if x < 1.0 {
            lc.count("phases_shorter_than_one_sample", 1);
        }
        lc.count("ticks", k);
    }
    ok
}

pub fn plane(ctx: &Ctx, rep: &mut Report, cap_extra: u64) {
    let thorough = ctx.tier.is_thorough();
    let stride: u64 = if thorough { 1 } else { 3 };
    let nrates = (192000 - 100) / stride + 1;
    par_ranges(ctx, rep, nrates, 512, |_, lo, hi, lc| {
        for i in lo..hi {
            let fs = (100 + i * stride) as f32;
            for t in [0.001f32, 0.002, 0.01, 0.5 / fs, 1.0 / fs, 2.0 / fs, 100.0 / fs] {
                run_config(fs, t, lc, cap_extra);
                lc.count("configurations", 1);
            }
            // a fractional neighbour of every fourth rate (timer-derived rates are seldom whole numbers)
            if i % 4 == 1 {
                let ff = (fs + [0.5f32, 0.9, 0.03125, 0.333_333_34][((i / 4) % 4) as usize]).min(192000.0);
                for t in [0.001f32, 0.01, 1.0 / ff, 100.0 / ff] {
                    run_config(ff, t, lc, cap_extra);
                    lc.count("configurations", 1);
                    lc.count("configurations_at_a_non_integer_sample_rate", 1);
                }
            }
            // a time set twice with nearly equal values: the second one counts
            if i % 5 == 0 {
                for (t, k) in [(0.05f32, 0.998f32), (0.02, 1.002), (0.011, 0.9985)] {
                    run_config_pre(fs, t, Some(t * k), lc, cap_extra);
                    lc.count("configurations", 1);
                    lc.count("configurations_with_a_time_set_twice", 1);
                }
            }
        }
    });
    // named grid
    let rates: [f32; 24] = [100.0, 101.0, 128.0, 441.0, 999.0, 1000.0, 1024.0, 4000.0, 8000.0, 16384.0, 22050.0, 32768.0, 44100.0, 48000.0, 65536.0, 88200.0, 96000.0, 131072.0, 192000.0, 100.5, 100.9, 999.5, 44117.647, 191999.5];
    let times: [f32; 24] = [-1.0, 0.0, 1.0e-6, 0.0005, 0.001, 0.0010000001, 0.0015, 0.002, 0.0039, 0.0078125, 0.01, 0.0625, 0.1, 0.25, 0.5, 1.0, 2.0, 5.0, 16.0, 19.999998, 20.0, 25.0, f32::INFINITY, f32::NAN];
    let limit: f64 = if thorough { 4.0e6 } else { 1.0e5 };
    par_ranges(ctx, rep, 24 * 24, 24 * 24, |_, lo, hi, lc| {
        for i in lo..hi {
            let fs = rates[(i / 24) as usize];
            let t = times[(i % 24) as usize];
            let tc: f32 = TimePeriod::from(t).into();
            if tc as f64 * fs as f64 > limit {
                lc.count("grid_points_skipped_in_quick_tier", 1);
                continue;
            }
            run_config(fs, t, lc, cap_extra);
            lc.count("configurations", 1);
            if tc as f64 * fs as f64 > 300.0 {
                for k in [0.9981f32, 1.0019, 0.99999] {
                    run_config_pre(fs, t, Some(tc * k), lc, cap_extra);
                    lc.count("configurations", 1);
                    lc.count("configurations_with_a_time_set_twice", 1);
                }
            }
        }
    });
    // the long corner of the plane (10^5 ... 3.84 * 10^6 ticks per phase), sparse in the quick tier
    if !thorough {
        let corner: Vec<(f32, f32)> = [5.0f32, 11.0, 16.0, 20.0].iter().flat_map(|t| [96000.0f32, 131072.0, 192000.0, 44100.0].map(|fs| (fs, *t))).chain([(100.9f32, 20.0f32), (191999.5, 7.3), (48000.0, 3.0)]).collect();
        let cr = &corner;
        par_ranges(ctx, rep, corner.len() as u64, corner.len() as u64, |_, lo, hi, lc| {
            for i in lo..hi {
                let (fs, t) = cr[i as usize];
                run_config(fs, t, lc, cap_extra);
                lc.count("configurations", 1);
                lc.count("configurations_longer_than_100000_ticks_per_phase", 1);
            }
        });
    }
    let n = rep.counters.get("configurations").copied().unwrap_or(0);
    let ticks = rep.counters.get("ticks").copied().unwrap_or(0);
    rep.subruns.push(json!({"engine": "E2-sweep", "what": "sample rate x time plane, each configuration run through attack, decay and release", "integer_sample_rates": nrates, "stride": stride, "times_per_rate": 7, "named_grid": 24 * 24, "configurations": n, "ticks": ticks}));
    rep.states += n;
    rep.transitions += ticks;
    rep.traces += n;
    rep.evaluations += n;
}

pub fn c02(ctx: &Ctx) -> Report {
    let mut rep = Report::new();
    rep.rule.push("(P) E2: every integer sample rate in [100, 192000] (quick: every 3rd) x T in {1 ms, 2 ms, 10 ms, 0.5/fs, 1/fs, 2/fs, 100/fs}, a fractional neighbour of every fourth of them, a named 24 x 24 grid with five non-integer rates, and a sparse long corner (5 ... 20 s at 44.1 ... 192 kHz) (clamped, infinite and NaN times included), each run on the real envelope through attack, decay and release with a watchdog: ticks per phase must lie in [max(1, ceil(N(1-2^-22))), N/(1-N/2^24)+2]; (H) E1: bounded-depth BFS over gate / tick / set_input histories against a five-state reference machine whose timed phases accumulate the per-tick ideal increment (so a mid-phase time change rescales only the remainder); (S) complete phase walks; non-trivial = phases timed in configurations + phase ends observed after more than one tick in histories".into());
    plane(ctx, &mut rep, 10);
    explore_h(ctx, &mut rep, &["C02"]);
    if ctx.tier.is_thorough() {
        key_selfcheck(AdsrM::new(1000.0, vec![0.001, 0.003], vec![0.0, 0.5]), 300_000, &mut rep, "adsr history machine");
    }
    sweep_increments(ctx, &mut rep, &["C02"]);
    sweep_mid_phase_events(ctx, &mut rep, &["C02"]);
    sweep_many_notes(ctx, &mut rep, &["C02"]);
    // "sustain and rest persist until the next gate event": 70 000 ticks (thorough: 2^24 + 70 000) in each, judged by the model
    {
        let dwell: u64 = if ctx.tier.is_thorough() { (1 << 24) + 70_000 } else { 70_000 };
        par_ranges(ctx, &mut rep, 2, 2, |_, lo, hi, lc| {
            for j in lo..hi {
                let fs = if j == 0 { 48000.0 } else { 100.9 };
                let mut m = AdsrM::new(fs, vec![], vec![]);
                let mut script: Vec<String> = Vec::new();
                let ops: Vec<String> = vec![format!("tick*{}", dwell), "gate_on".into(), format!("tick*{}", dwell), "sustain:0.4".into(), format!("tick*{}", dwell), "gate_off".into(), format!("tick*{}", dwell), "gate_on".into(), "tick*3".into()];
                drive(&mut m, &mut script, &ops, &["C02"], lc);
                lc.count("long_dwell_runs", 1);
            }
        });
        rep.require_nonzero("long_dwell_runs");
    }
    rep.nontrivial = rep.counters.get("phases_timed").copied().unwrap_or(0) + rep.counters.get("phase_ends_after_more_than_one_tick").copied().unwrap_or(0);
    rep.require_nonzero("phases_shorter_than_one_sample");
    rep.require_nonzero("configurations_with_a_time_set_twice");
    rep.require_nonzero("phase_ends_after_more_than_one_tick");
    rep.require_nonzero("time_changed_inside_its_phase");
    rep.require_nonzero("gate_on_ignored_in_attack");
    rep.require_nonzero("gate_off_ignored");
    rep.sample(json!({"fs": 100.0, "T": 0.01, "ticks_per_phase_expected": "1..3"}));
    rep.sample(json!({"fs": 192000.0, "T": 20.0, "ticks_per_phase_expected": "3840000..4980000 (N/(1-N/2^24)+2)"}));
    rep.assumptions.push("the current phase is read through the verif_state hook (cross-checked by the exact plateau levels of C01)".into());
    rep
}
