//! C17: no operation panics, overflows or hangs for any in-range argument.
//! The whole harness is built with overflow checks and debug assertions on for
//! the subject and its dependencies; every call runs under catch_unwind.

use crate::common::*;
use crate::explore::*;
use crate::p_adsr::AdsrM;
use crate::p_glide::GlideM;
use crate::p_lfo::LfoM;
use crate::p_quant::{QOp, QuantM};
use serde_json::json;
use synth_utils::mono_midi_receiver::MonoMidiReceiver;
use synth_utils::quantizer::{Note, Quantizer};
use synth_utils::ribbon_controller::{sample_rate_to_capacity, RibbonController};

const P: &[&str] = &["C17"];

fn viol(class: &str, detail: String, machine: &'static str, config: serde_json::Value, ops: Vec<String>) -> Violation {
    Violation { prop: "C17", class: class.to_string(), detail, machine, config, ops }
}

fn ribbon_ext<const C: usize>(fs: u32, depth: u32, lc: &mut LocalCounts) {
    let cfgs: [(f32, f32, f32); 2] = [(20e3, 820.0, 1e6), (10e3, 1e3, 11e3)];
    for (sp, dr, pu) in cfgs {
        let boundary = 1.0 - (dr / (dr + sp));
        let vals: [f32; 7] = [0.0, f32::from_bits(1), 0.5, f32::from_bits(boundary.to_bits() - 1), boundary, f32::from_bits(boundary.to_bits() + 1), 1.0];
        // operations: poll(v) for 7 values, a long run of poll(v) for 3 values, the four getters
        let nops = 7 + 3 + 1;
        let total = (nops as u64).pow(depth);
        for seq in 0..total {
            let mut ops: Vec<String> = Vec::new();
            let r = std::panic::catch_unwind(std::panic::AssertUnwindSafe(|| {
                let mut rib = RibbonController::<C>::new(fs as f32, sp, dr, pu);
                let mut x = seq;
                for _ in 0..depth {
                    let o = (x % nops as u64) as usize;
                    x /= nops as u64;
                    if o < 7 {
                        ops.push(format!("poll:{:?}", vals[o]));
                        rib.poll(vals[o]);
                    } else if o < 10 {
                        let v = [0.0f32, 0.5, vals[3]][o - 7];
                        ops.push(format!("poll:{:?}*{}", v, 2 * C + 40));
                        for _ in 0..(2 * C + 40) {
                            rib.poll(v);
                        }
                    } else {
                        ops.push("just_pressed".into());
                        ops.push("just_released".into());
                        let _ = (rib.value(), rib.finger_is_pressing(), rib.finger_just_pressed(), rib.finger_just_released());
                    }
                    let v = rib.value();
                    if !v.is_finite() {
                        panic!("value() is {:?}", v);
                    }
                }
            }));
            lc.count("ribbon_sequences", 1);
            if let Err(e) = r {
                lc.violation(viol("panic-ribbon", format!("ribbon controller at {} Hz: {}", fs, panic_msg(&e)), "ribbon", json!({"fs": fs, "softpot": sp, "dropper": dr, "pullup": pu}), ops));
            }
        }
    }
}

pub fn c17(ctx: &Ctx) -> Report {
    let mut rep = Report::new();
    rep.rule.push("the subject and its dependencies are compiled with overflow checks and debug assertions; (2) E1 per module over extreme-argument alphabets (range end points, subnormals, +-MAX, NaN / infinities through the clamping conversions) to depth 3 (quick) / 4 (thorough) at sample rates {100, 999, 1000, 44100, 192000}; (3) complete finite spaces: all 256^3 three-byte MIDI sequences from a fresh receiver and four other states, Quantizer::convert over f32 bit patterns (thorough: all 2^32 on four scales), all note and channel bytes; termination: the sample-rate x time plane of C02 with its watchdog, plus ten extreme finite times at every rate of the menu (the 20 s clamp at 192 kHz = 3.84e6 ticks per phase is run in both tiers); a panic or a watchdog hit is a violation; non-trivial = distinct states reached by the extreme-argument explorations + convert inputs outside [0, 10] V or NaN".into());
    let thorough = ctx.tier.is_thorough();
    let depth = if thorough { 4 } else { 3 };
    let ext_f: Vec<f32> = vec![f32::NEG_INFINITY, f32::MIN, -1.0, -0.0, 0.0, f32::from_bits(1), f32::MIN_POSITIVE, 1.0e-10, 0.001, 1.0, 20.0, 1.0e10, f32::MAX, f32::INFINITY, f32::NAN];
    let rates = [100.0f32, 999.0, 1000.0, 44100.0, 192000.0];
    // ADSR
    for fs in rates {
        let m = AdsrM::new(fs, ext_f.clone(), ext_f.clone());
        explore(m, &ExploreCfg { max_depth: Some(depth), state_cap: 60_000_000, threads: ctx.threads, label: format!("adsr extreme arguments at {} Hz, depth {}", fs, depth) }, &mut rep, P);
    }
    // ADSR, narrower alphabet but deeper: a long phase started, ticked, then shortened (and the reverse)
    for fs in [100.0f32, 250.0, 192000.0] {
        let m = AdsrM::new(fs, vec![0.0, 0.0011, 20.0, f32::MAX], vec![0.0, 1.0]);
        let d = if thorough { 7 } else { 6 };
        explore(m, &ExploreCfg { max_depth: Some(d), state_cap: 60_000_000, threads: ctx.threads, label: format!("adsr range end points at {} Hz, depth {}", fs, d) }, &mut rep, P);
    }
    // MIDI: more simultaneously held notes than the receiver can remember (stuck keys), and everything around it
    {
        let a = crate::p_midi::Alphabet { notes: vec![60], vels: vec![100], k: 40, modes: false, polls: false, ccs: vec![], bends: vec![], foreign: false, edge_note: Some(61) };
        explore(crate::p_midi::MidiM::new(0, a), &ExploreCfg { max_depth: None, state_cap: 20_000_000, threads: ctx.threads, label: "midi: up to 40 outstanding note-ons (beyond the 32 the receiver remembers)".into() }, &mut rep, P);
    }
    // MIDI: sequences of controller messages with special meaning (data entry, increment / decrement, (N)RPN
    // select, channel mode) and then a few ordinary messages: no panic, no overflow
    {
        let fam: [u8; 12] = [6, 38, 96, 97, 98, 99, 100, 101, 121, 123, 1, 64];
        let ops: Vec<(u8, u8)> = fam.iter().flat_map(|c| [(*c, 0u8), (*c, 127)]).collect();
        let probes = [crate::p_midi::MOp::Bend(0), crate::p_midi::MOp::Bend(16383), crate::p_midi::MOp::On(60, 100)];
        crate::p_midi::cc_sequences(ctx, &mut rep, 0, &ops, if thorough { 6 } else { 5 }, &probes, P, "special controller numbers x {0,127}, then probes (panic check)");
        let all: Vec<(u8, u8)> = (0..128u8).flat_map(|c| [(c, 0u8), (c, 127)]).collect();
        crate::p_midi::cc_sequences(ctx, &mut rep, 5, &all, if thorough { 3 } else { 2 }, &probes, P, "all controller numbers x {0,127}, then probes (panic check)");
    }
    // long runs: more operations of one kind in a row than a 16-bit counter (with small prescalers) can hold
    crate::p_lfo::long_runs(ctx, &mut rep, "C17");
    {
        // envelope: idle, held in sustain, and in a slow attack for 70000 ticks each
        for (label, script) in [("70000 ticks at rest", vec!["tick*70000".to_string()]), ("a note held for 70000 ticks", vec!["gate_on".to_string(), "tick*70000".to_string(), "gate_off".to_string(), "tick*70000".to_string()]), ("70000 ticks inside a 20 s attack", vec!["attack:20".to_string(), "gate_on".to_string(), "gate_on".to_string(), "tick*70000".to_string()])] {
            let r = std::panic::catch_unwind(|| {
                let mut m = AdsrM::new(48000.0, vec![], vec![]);
                for (o, n) in expand_ops(&script) {
                    let op = crate::p_adsr::parse_op(&o);
                    for _ in 0..n {
                        let mut out = StepOut::new();
                        m.apply(&op, &mut out);
                    }
                }
            });
            rep.count("long_run_scripts", 1);
            if let Err(e) = r {
                rep.violation(viol("panic-in-a-long-run", format!("envelope, {}: {}", label, panic_msg(&e)), "adsr", json!({"fs": 48000.0}), script.clone()));
            }
        }
        // glide: one input held for 70000 samples, and 70000 set_time toggles
        let r = std::panic::catch_unwind(|| {
            let mut g = synth_utils::glide_processor::GlideProcessor::new(48000.0);
            g.set_time(0.3);
            for _ in 0..70_000 {
                g.process(0.7);
            }
            for i in 0..70_000u32 {
                g.set_time(if i % 2 == 0 { 0.0 } else { 1.0 });
                g.process(0.1);
            }
        });
        rep.count("long_run_scripts", 1);
        if let Err(e) = r {
            rep.violation(viol("panic-in-a-long-run", format!("glide: 70000 held samples / 70000 time toggles: {}", panic_msg(&e)), "glide", json!({"fs": 48000.0}), vec!["set_time:0.3".into(), "process:0.7*70000".into()]));
        }
        // MIDI: each single byte value that is a complete message or filler on its own, 2^21 times in a row
        // (24 clock bytes x 2^16 beats = 1.57 million)
        par_ranges(ctx, &mut rep, 12, 12, |_, lo, hi, lc| {
            for j in lo..hi {
                let b: u8 = [0xF8u8, 0xFE, 0xFA, 0xFC, 0xFF, 0xF6, 0xF7, 0xF0, 0x00, 0x7F, 0xF1, 0xF9][j as usize];
                let n: u64 = (1 << 21) + 7;
                let r = std::panic::catch_unwind(|| {
                    let mut m = MonoMidiReceiver::new(0);
                    for b0 in [0x90u8, 60, 100] {
                        m.parse(b0);
                    }
                    for _ in 0..n {
                        m.parse(b);
                    }
                    m.gate()
                });
                lc.count("long_run_scripts", 1);
                if let Err(e) = r {
                    lc.violation(viol("panic-in-a-long-run", format!("MIDI byte {:#04x} repeated {} times: {}", b, n, panic_msg(&e)), "midi", json!({"channel": 0}), vec!["byte:144".into(), "byte:60".into(), "byte:100".into(), format!("byte:{}*{}", b, n)]));
                }
            }
        });
    }
    // LFO: every state set_phase can create must be readable
    crate::p_lfo::set_phase_sweep(ctx, &mut rep, if thorough { 4 } else { 64 }, P);
    // LFO
    for fs in rates {
        let freqs = vec![0.0, f32::from_bits(1), fs / 16777216.0, fs / 2.0, f32::from_bits(fs.to_bits() - 1), fs];
        let phases = vec![0.0, -0.0, 0.25, 1.0, -1.0, 1.0e10, -1.0e10, f32::MAX, f32::MIN, f32::from_bits(1)];
        let m = LfoM::new(fs, freqs, phases);
        explore(m, &ExploreCfg { max_depth: Some(depth + 1), state_cap: 60_000_000, threads: ctx.threads, label: format!("lfo extreme arguments at {} Hz, depth {}", fs, depth + 1) }, &mut rep, P);
    }
    // glide
    for fs in [100.0f32, 999.0, 1000.0, 44100.0, 48000.0] {
        let m = GlideM::new(fs, vec![0.0, 1.0, -1.0, 1.0e6], vec![0.0, f32::from_bits(1), 1.0e-10, 1.0 / fs, 2.0 / fs, 10.0, 1.0e10, f32::MAX]);
        enumerate_sequences(&m, depth, ctx, &mut rep, P, &format!("glide extreme times at {} Hz, depth {}", fs, depth));
    }
    // glide: long holds at small, ordinary, large and huge magnitudes for a grid of rates and times (rounded
    // coefficients differ from one (rate, time) pair to the next)
    {
        let mut jobs: Vec<(f32, f32)> = Vec::new();
        for fs in [100.0f32, 441.0, 1000.0, 8000.0, 44100.0, 48000.0] {
            for t in [0.0f32, 0.01, 0.06, 0.2, 0.5, 1.0, 2.5, 5.0, 7.5, 10.0] {
                jobs.push((fs, t));
            }
        }
        let jr = &jobs;
        par_ranges(ctx, &mut rep, jobs.len() as u64, jobs.len() as u64, |_, lo, hi, lc| {
            for j in lo..hi {
                let (fs, t) = jr[j as usize];
                for level in [1.0e-30f32, 1.0e-13, 0.3, 1.9, 2.5, 60.0, 1000.0, 1.0e6, 3.0e38] {
                    let n = ((3.0 * t as f64 * fs as f64) as usize).min(if thorough { 400_000 } else { 70_000 }) + 64;
                    let r = std::panic::catch_unwind(|| {
                        let mut g = synth_utils::glide_processor::GlideProcessor::new(fs);
                        g.set_time(t);
                        let mut y = 0.0f32;
                        for _ in 0..n {
                            y = g.process(level);
                        }
                        for _ in 0..n / 2 {
                            y = g.process(-level);
                        }
                        for _ in 0..n / 4 {
                            y = g.process(level * 0.5);
                        }
                        y
                    });
                    lc.count("glide_long_holds", 1);
                    match r {
                        Err(e) => lc.violation(viol("panic-glide", format!("glide processor at {} Hz, time {} s, level {:e}: {}", fs, t, level, panic_msg(&e)), "glide", json!({"fs": fs}), vec![format!("set_time:{:?}", t), format!("process:{:?}*{}", level, n), format!("process:{:?}*{}", -level, n / 2), format!("process:{:?}*{}", level * 0.5, n / 4)])),
                        Ok(y) => {
                            if !y.is_finite() {
                                lc.violation(viol("not-finite-glide", format!("glide processor at {} Hz, time {} s, level {:e}: output {:?}", fs, t, level, y), "glide", json!({"fs": fs}), vec![format!("set_time:{:?}", t), format!("process:{:?}*{}", level, n)]));
                            }
                        }
                    }
                }
            }
        });
    }
    // quantizer
    {
        let mut edits: Vec<QOp> = vec![QOp::Forbid(vec![0]), QOp::Allow(vec![0]), QOp::Forbid(vec![255, 11]), QOp::Allow(vec![200]), QOp::Forbid((0..12).collect()), QOp::Forbid(vec![12, 13, 14, 15, 16])];
        edits.push(QOp::Allow((0..=255).collect()));
        let inputs: Vec<f32> = vec![f32::NAN, f32::INFINITY, f32::NEG_INFINITY, f32::MAX, f32::MIN, -0.0, 0.0, f32::from_bits(1), 10.0, 10.000001, 9.999999, 1.0, 4.9999995];
        let m = QuantM::new(edits, inputs);
        explore(m, &ExploreCfg { max_depth: Some(depth + 1), state_cap: 60_000_000, threads: ctx.threads, label: format!("quantizer extreme inputs, depth {}", depth + 1) }, &mut rep, P);
    }
    let e1_states = rep.states;
    rep.count("distinct_states_reached_with_extreme_arguments", e1_states);
    // ribbon
    {
        let d = if thorough { 4 } else { 3 };
        par_ranges(ctx, &mut rep, 8, 8, |_, lo, hi, lc| {
            for i in lo..hi {
                match i {
                    0 => ribbon_ext::<{ sample_rate_to_capacity(100) }>(100, d, lc),
                    1 => ribbon_ext::<{ sample_rate_to_capacity(334) }>(334, d, lc),
                    2 => ribbon_ext::<{ sample_rate_to_capacity(500) }>(500, d, lc),
                    3 => ribbon_ext::<{ sample_rate_to_capacity(1000) }>(1000, d, lc),
                    4 => ribbon_ext::<{ sample_rate_to_capacity(2000) }>(2000, d, lc),
                    5 => ribbon_ext::<{ sample_rate_to_capacity(10000) }>(10000, d.min(3), lc),
                    6 => ribbon_ext::<{ sample_rate_to_capacity(48000) }>(48000, 2, lc),
                    _ => ribbon_ext::<{ sample_rate_to_capacity(192000) }>(192000, 2, lc),
                }
            }
        });
        let n = rep.counters.get("ribbon_sequences").copied().unwrap_or(0);
        rep.evaluations += n;
        rep.transitions += n * d as u64;
        rep.traces += n;
        rep.states += n;
    }
    // MIDI: all three-byte sequences from five states
    {
        let preludes: Vec<Vec<u8>> = vec![vec![], vec![0x90, 60, 100], vec![0x90, 60], vec![0xB0, 1], vec![0xE0], ];
        let pr = &preludes;
        let stride: u64 = if thorough { 1 } else { 1 };
        par_ranges(ctx, &mut rep, 5 * 256 / stride, 5 * 256 / stride, |_, lo, hi, lc| {
            for j in lo..hi {
                let pi = (j / 256) as usize;
                let b0 = (j % 256) as u8;
                let mut base = MonoMidiReceiver::new(0);
                for b in &pr[pi] {
                    base.parse(*b);
                }
                let mut a = base.verif_clone();
                a.parse(b0);
                for b1 in 0..=255u8 {
                    let r = std::panic::catch_unwind(std::panic::AssertUnwindSafe(|| {
                        let mut b = a.verif_clone();
                        b.parse(b1);
                        for b2 in 0..=255u8 {
                            let mut c = b.verif_clone();
                            c.parse(b2);
                            let _ = (c.note_num(), c.velocity(), c.pitch_bend(), c.gate(), c.rising_gate(), c.falling_gate());
                        }
                    }));
                    lc.count("midi_three_byte_sequences", 256);
                    if let Err(e) = r {
                        // find the third byte
                        let mut ops: Vec<String> = pr[pi].iter().map(|b| format!("byte:{}", b)).collect();
                        ops.push(format!("byte:{}", b0));
                        ops.push(format!("byte:{}", b1));
                        lc.violation(viol("panic-midi", format!("parse panicked: {}", panic_msg(&e)), "midi", json!({"channel": 0}), ops));
                    }
                }
            }
        });
        let n = rep.counters.get("midi_three_byte_sequences").copied().unwrap_or(0);
        rep.evaluations += n;
        rep.transitions += n;
        rep.traces += n;
        rep.states += n;
    }
    // note and channel bytes
    for n in 0..=255u8 {
        let r = std::panic::catch_unwind(|| {
            let mut q = Quantizer::new();
            q.forbid(&[Note::from(n)]);
            q.allow(&[Note::new(n)]);
            let _ = q.is_allowed(n.into());
            let _ = q.convert(n as f32 / 25.0);
            let mut m = MonoMidiReceiver::new(n);
            for b in [0x90 | (n & 15), n & 127, 100, n] {
                m.parse(b);
            }
        });
        rep.count("note_and_channel_bytes", 1);
        if let Err(e) = r {
            rep.violation(viol("panic-byte-argument", format!("note / channel byte {}: {}", n, panic_msg(&e)), "clamp", json!({}), vec![format!("note:{}", n)]));
        }
    }
    // quantizer convert over bit patterns
    {
        let stride: u64 = if thorough { 1 } else { 257 };
        let scales: Vec<u16> = if thorough { vec![0xfff, 0x001, 0x800, 0x421] } else { vec![0xfff, 0x800] };
        let n = (1u64 << 32) / stride;
        for mask in scales {
            par_ranges(ctx, &mut rep, n, 512, |_, lo, hi, lc| {
                let template = crate::p_quant::with_scale(mask);
                let mut q = template.verif_clone();
                let mut i = lo;
                while i < hi {
                    let end = (i + 65536).min(hi);
                    let mut outside = 0u64;
                    let r = std::panic::catch_unwind(std::panic::AssertUnwindSafe(|| {
                        for k in i..end {
                            let x = f32::from_bits((k * stride) as u32);
                            if !(x >= 0.0 && x <= 10.0) {
                                outside += 1;
                            }
                            let c = q.convert(x);
                            if c.note_num > 143 {
                                panic!("note number {} out of range for input bits {:#x}", c.note_num, k * stride);
                            }
                        }
                    }));
                    if r.is_err() {
                        // locate the input
                        for k in i..end {
                            let bits = (k * stride) as u32;
                            let r1 = std::panic::catch_unwind(|| {
                                let mut q1 = crate::p_quant::with_scale(mask);
                                q1.convert(f32::from_bits(bits))
                            });
                            if let Err(e) = r1 {
                                lc.violation(viol("panic-quantizer", format!("convert({:?}) on scale {:012b}: {}", f32::from_bits(bits), mask, panic_msg(&e)), "quantizer", json!({}), vec![format!("convert:0x{:08x}", bits)]));
                                break;
                            }
                        }
                        q = template.verif_clone();
                    }
                    lc.count("convert_bit_patterns", end - i);
                    lc.count("convert_bit_patterns_outside_0_10_or_nan", outside);
                    i = end;
                }
            });
        }
        let n = rep.counters.get("convert_bit_patterns").copied().unwrap_or(0);
        rep.evaluations += n;
        rep.transitions += n;
        rep.traces += n;
    }
    // termination: every envelope reaches sustain and rest
    {
        let mut scratch = Report::new();
        let sub = Ctx { id: ctx.id.clone(), tier: Tier::Quick, seed: ctx.seed, root: ctx.root.clone(), threads: ctx.threads, start: ctx.start };
        crate::p_adsr::plane(&sub, &mut scratch, 1 << 25);
        // extreme finite times at every rate of the menu
        let times = [f32::MIN, -1.0, 0.0, f32::from_bits(1), 1.0e-10, 0.001, 0.0011, 0.0137, 1.0e10, f32::MAX];
        let pairs = (rates.len() * times.len()) as u64;
        par_ranges(ctx, &mut scratch, pairs, pairs, |_, lo, hi, lc| {
            for i in lo..hi {
                let (fs, t) = (rates[i as usize / times.len()], times[i as usize % times.len()]);
                // quick: of the long configurations only the longest one (f32::MAX, clamped to 20 s) is run at every rate
                if (t.max(0.001).min(20.0) as f64) * (fs as f64) > 2.0e5 && !thorough && t != f32::MAX {
                    continue;
                }
                crate::p_adsr::run_config(fs, t, lc, 1 << 25);
                lc.count("configurations", 1);
                if (t.max(0.001).min(20.0) as f64) * (fs as f64) > (1u64 << 20) as f64 {
                    lc.count("configurations_longer_than_2^20_ticks_per_phase", 1);
                }
            }
        });
        let n = scratch.counters.get("configurations").copied().unwrap_or(0);
        rep.count("envelopes_run_to_completion", n);
        rep.count("envelopes_longer_than_2^20_ticks_per_phase", scratch.counters.get("configurations_longer_than_2^20_ticks_per_phase").copied().unwrap_or(0));
        rep.evaluations += n;
        rep.transitions += scratch.counters.get("ticks").copied().unwrap_or(0);
        rep.states += n;
        rep.traces += n;
        let never = scratch.per_class.get("phase-never-ends").copied().unwrap_or(0);
        let mut kept = 0;
        for v in scratch.violations {
            if v.class == "phase-never-ends" {
                kept += 1;
                rep.violation(Violation { prop: "C17", class: "envelope-never-finishes".into(), ..v });
            }
        }
        rep.violations_total += never - kept;
        *rep.per_class.entry("envelope-never-finishes".into()).or_insert(0) += never - kept;
        for e in scratch.machinery_errors {
            rep.machinery(e);
        }
    }
    rep.nontrivial = e1_states + rep.counters.get("convert_bit_patterns_outside_0_10_or_nan").copied().unwrap_or(0);
    rep.exhaustive = false;
    rep.require_nonzero("midi_three_byte_sequences");
    rep.require_nonzero("convert_bit_patterns");
    rep.require_nonzero("envelopes_run_to_completion");
    rep.require_nonzero("envelopes_longer_than_2^20_ticks_per_phase");
    rep.sample(json!({"adsr": ["attack:NaN", "gate_on", "tick"], "lfo": ["phase:-3.4028235e38", "tick"], "glide": ["set_time:1e-45", "process:1.0"], "quantizer": ["convert:NaN"], "midi": ["byte:255", "byte:247", "byte:144"]}));
    rep.assumptions.push("a hang inside a single call cannot occur (no unbounded loop in the crate); 'fails to return' is therefore checked as an envelope that never reaches sustain / rest under a watchdog".into());
    rep
}
