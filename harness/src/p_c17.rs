//! C17: no operation panics, overflows or hangs for any in-range argument.
//! The whole harness is built with overflow checks and debug assertions on for
//! the subject and its dependencies; every call runs under catch_unwind.

use crate::common::*;
use crate::explore::*;
use crate::p_adsr::AdsrM;
use crate::p_glide::GlideM;
use crate::p_lfo::LfoM;
use crate::p_quant::{QOp, QuantM};
use serde_json::json;
use synth_utils::mono_midi_receiver::MonoMidiReceiver;
use synth_utils::quantizer::{Note, Quantizer};
use synth_utils::ribbon_controller::{sample_rate_to_capacity, RibbonController};

const P: &[&str] = &["C17"];

fn viol(class: &str, detail: String, machine: &'static str, config: serde_json::Value, ops: Vec<String>) -> Violation {
    Violation { prop: "C17", class: class.to_string(), detail, machine, config, ops }
}

fn ribbon_ext<const C: usize>(fs: u32, depth: u32, lc: &mut LocalCounts) {
    let cfgs: [(f32, f32, f32); 2] = [(20e3, 820.0, 1e6), (10e3, 1e3, 11e3)];
    for (sp, dr, pu) in cfgs {
        let boundary = 1.0 - (dr / (dr + sp));
        let vals: [f32; 8] = [0.0, f32::from_bits(1), 0.5, f32::from_bits(boundary.to_bits() - 1), boundary, f32::from_bits(boundary.to_bits() + 1), 1.0, -0.0];
        // operations: poll(v) for 8 values, a long run of poll(v) for 3 values, the four getters
        let nops = 8 + 3 + 1;
        let total = (nops as u64).pow(depth);
        for seq in 0..total {
            let mut ops: Vec<String> = Vec::new();
            let r = std::panic::catch_unwind(std::panic::AssertUnwindSafe(|| {
                let mut rib = RibbonController::<C>::new(fs as f32, sp, dr, pu);
                let mut x = seq;
                for _ in 0..depth {
                    let o = (x % nops as u64) as usize;
                    x /= nops as u64;
                    if o < 8 {
                        ops.push(format!("poll:{:?}", vals[o]));
                        rib.poll(vals[o]);
                    } else if o < 11 {
                        let v = [0.0f32, 0.5, vals[3]][o - 8];
                        ops.push(format!("poll:{:?}*{}", v, 2 * C + 40));
                        for _ in 0..(2 * C + 40) {
                            rib.poll(v);
                        }
                    } else {
                        ops.push("just_pressed".into());
                        ops.push("just_released".into());
                        let _ = (rib.value(), rib.finger_is_pressing(), rib.finger_just_pressed(), rib.finger_just_released());
                    }
                    let v = rib.value();
                    if !v.is_finite() {
                        panic!("value() is {:?}", v);
                    }
                }
            }));
            lc.count("ribbon_sequences", 1);
            if let Err(e) = r {
                lc.violation(viol("panic-ribbon", format!("ribbon controller at {} Hz: {}", fs, panic_msg(&e)), "ribbon", json!({"fs": fs, "softpot": sp, "dropper": dr, "pullup": pu}), ops));
            }
        }
    }
}

pub fn c17(ctx: &Ctx) -> Report {
    let mut rep = Report::new();
    rep.rule.push("the subject and its dependencies are compiled with overflow checks and debug assertions; (2) E1 per module over extreme-argument alphabets (range end points, subnormals, +-MAX, NaN / infinities through the clamping conversions) to depth 3 (quick) / 4 (thorough) at sample rates {100, 999, 1000, 44100, 192000}; (3) complete finite spaces: all 256^3 three-byte MIDI sequences from a fresh receiver and four other states, Quantizer::convert over f32 bit patterns (thorough: all 2^32 on four scales), all note and channel bytes; (4) ordinary interior argument values at ten sample rates (two non-integer) for the oscillator, envelope, glide and the MIDI mode setters; (5) long repetitions of one operation (70 000; thorough 2^32 + 70 000) for every module; termination: the sample-rate x time plane of C02 with its watchdog, plus ten extreme finite times at every rate of the menu (the 20 s clamp at 192 kHz = 3.84e6 ticks per phase is run in both tiers); a panic or a watchdog hit is a violation; non-trivial = distinct states reached by the extreme-argument explorations + convert inputs outside [0, 10] V or NaN".into());
    let thorough = ctx.tier.is_thorough();
    let depth = if thorough { 4 } else { 3 };
    let ext_f: Vec<f32> = vec![f32::NEG_INFINITY, f32::MIN, -1.0, -0.0, 0.0, f32::from_bits(1), f32::MIN_POSITIVE, 1.0e-10, 0.001, 1.0, 20.0, 1.0e10, f32::MAX, f32::INFINITY, f32::NAN];
    let rates = [100.0f32, 999.0, 1000.0, 44100.0, 192000.0];
    // ADSR
    for fs in rates {
        let m = AdsrM::new(fs, ext_f.clone(), ext_f.clone());
        explore(m, &ExploreCfg { max_depth: Some(depth), state_cap: 60_000_000, threads: ctx.threads, label: format!("adsr extreme arguments at {} Hz, depth {}", fs, depth) }, &mut rep, P);
    }
    // ADSR, narrower alphabet but deeper: a long phase started, ticked, then shortened (and the reverse)
    for fs in [100.0f32, 250.0, 192000.0] {
        let m = AdsrM::new(fs, vec![0.0, 0.0011, 20.0, f32::MAX], vec![0.0, 1.0]);
        let d = if thorough { 7 } else { 6 };
        explore(m, &ExploreCfg { max_depth: Some(d), state_cap: 60_000_000, threads: ctx.threads, label: format!("adsr range end points at {} Hz, depth {}", fs, d) }, &mut rep, P);
    }
    // MIDI: more simultaneously held notes than the receiver can remember (stuck keys), and everything around it
    {
        let a = crate::p_midi::Alphabet { notes: vec![60], vels: vec![100], k: 40, modes: false, polls: false, ccs: vec![], bends: vec![], foreign: false, edge_note: Some(61) };
        explore(crate::p_midi::MidiM::new(0, a), &ExploreCfg { max_depth: None, state_cap: 20_000_000, threads: ctx.threads, label: "midi: up to 40 outstanding note-ons (beyond the 32 the receiver remembers)".into() }, &mut rep, P);
    }
    // MIDI: sequences of controller messages with special meaning (data entry, increment / decrement, (N)RPN
    // select, channel mode) and then a few ordinary messages: no panic, no overflow
    {
        let fam: [u8; 12] = [6, 38, 96, 97, 98, 99, 100, 101, 121, 123, 1, 64];
        let ops: Vec<(u8, u8)> = fam.iter().flat_map(|c| [(*c, 0u8), (*c, 127)]).collect();
        let probes = [crate::p_midi::MOp::Bend(0), crate::p_midi::MOp::Bend(16383), crate::p_midi::MOp::On(60, 100)];
        crate::p_midi::cc_sequences(ctx, &mut rep, 0, &ops, if thorough { 6 } else { 5 }, &probes, P, "special controller numbers x {0,127}, then probes (panic check)");
        let all: Vec<(u8, u8)> = (0..128u8).flat_map(|c| [(c, 0u8), (c, 127)]).collect();
        crate::p_midi::cc_sequences(ctx, &mut rep, 5, &all, if thorough { 3 } else { 2 }, &probes, P, "all controller numbers x {0,127}, then probes (panic check)");
    }
    // long runs: more operations of one kind in a row than a 16-bit counter (with small prescalers) can hold
    crate::p_lfo::long_runs(ctx, &mut rep, "C17");
    {
        // envelope: idle, held in sustain, and in a slow attack for 70000 ticks each
        for (label, script) in [("70000 ticks at rest", vec!["tick*70000".to_string()]), ("a note held for 70000 ticks", vec!["gate_on".to_string(), "tick*70000".to_string(), "gate_off".to_string(), "tick*70000".to_string()]), ("70000 ticks inside a 20 s attack", vec!["attack:20".to_string(), "gate_on".to_string(), "gate_on".to_string(), "tick*70000".to_string()])] {
            let r = std::panic::catch_unwind(|| {
                let mut m = AdsrM::new(48000.0, vec![], vec![]);
                for (o, n) in expand_ops(&script) {
                    let op = crate::p_adsr::parse_op(&o);
                    for _ in 0..n {
                        let mut out = StepOut::new();
                        m.apply(&op, &mut out);
                    }
                }
            });
            rep.count("long_run_scripts", 1);
            if let Err(e) = r {
                rep.violation(viol("panic-in-a-long-run", format!("envelope, {}: {}", label, panic_msg(&e)), "adsr", json!({"fs": 48000.0}), script.clone()));
            }
        }
        // glide: one input held for 70000 samples, and 70000 set_time toggles
        let r = std::panic::catch_unwind(|| {
            let mut g = synth_utils::glide_processor::GlideProcessor::new(48000.0);
            g.set_time(0.3);
            for _ in 0..70_000 {
                g.process(0.7);
            }
            for i in 0..70_000u32 {
                g.set_time(if i % 2 == 0 { 0.0 } else { 1.0 });
                g.process(0.1);
            }
        });
        rep.count("long_run_scripts", 1);
        if let Err(e) = r {
            rep.violation(viol("panic-in-a-long-run", format!("glide: 70000 held samples / 70000 time toggles: {}", panic_msg(&e)), "glide", json!({"fs": 48000.0}), vec!["set_time:0.3".into(), "process:0.7*70000".into()]));
        }
        // MIDI: each single byte value that is a complete message or filler on its own, 2^21 times in a row
        // (24 clock bytes x 2^16 beats = 1.57 million)
        par_ranges(ctx, &mut rep, 12, 12, |_, lo, hi, lc| {
            for j in lo..hi {
                let b: u8 = [0xF8u8, 0xFE, 0xFA, 0xFC, 0xFF, 0xF6, 0xF7, 0xF0, 0x00, 0x7F, 0xF1, 0xF9][j as usize];
                let n: u64 = (1 << 21) + 7;
                let r = std::panic::catch_unwind(|| {
                    let mut m = MonoMidiReceiver::new(0);
                    for b0 in [0x90u8, 60, 100] {
                        m.parse(b0);
                    }
                    for _ in 0..n {
                        m.parse(b);
                    }
                    m.gate()
                });
                lc.count("long_run_scripts", 1);
                if let Err(e) = r {
                    lc.violation(viol("panic-in-a-long-run", format!("MIDI byte {:#04x} repeated {} times: {}", b, n, panic_msg(&e)), "midi", json!({"channel": 0}), vec!["byte:144".into(), "byte:60".into(), "byte:100".into(), format!("byte:{}*{}", b, n)]));
                }
            }
        });
    }
    // LFO: every state set_phase can create must be readable
    crate::p_lfo::set_phase_sweep(ctx, &mut rep, if thorough { 4 } else { 64 }, P);
    // LFO
    for fs in rates {
        let freqs = vec![0.0, f32::from_bits(1), fs / 16777216.0, fs / 2.0, f32::from_bits(fs.to_bits() - 1), fs];
        let phases = vec![0.0, -0.0, 0.25, 1.0, -1.0, 1.0e10, -1.0e10, f32::MAX, f32::MIN, f32::from_bits(1)];
        let m = LfoM::new(fs, freqs, phases);
        explore(m, &ExploreCfg { max_depth: Some(depth + 1), state_cap: 60_000_000, threads: ctx.threads, label: format!("lfo extreme arguments at {} Hz, depth {}", fs, depth + 1) }, &mut rep, P);
    }
    // glide
    for fs in [100.0f32, 999.0, 1000.0, 44100.0, 48000.0, 100.9, 96000.0, 192000.0, 44117.647] {
        let m = GlideM::new(fs, vec![0.0, 1.0, -1.0, 1.0e6], vec![0.0, -0.0, f32::from_bits(1), 1.0e-10, 1.0 / fs, 2.0 / fs, 10.0, 1.0e10, f32::MAX]);
        enumerate_sequences(&m, depth, ctx, &mut rep, P, &format!("glide extreme times at {} Hz, depth {}", fs, depth));
    }
    // glide: long holds at small, ordinary, large and huge magnitudes for a grid of rates and times (rounded
    // coefficients differ from one (rate, time) pair to the next)
    {
        let mut jobs: Vec<(f32, f32)> = Vec::new();
        for fs in [100.0f32, 441.0, 1000.0, 8000.0, 44100.0, 48000.0, 192000.0, 22050.5] {
            for t in [0.0f32, -0.0, 0.01, 0.06, 0.2, 0.5, 1.0, 2.5, 5.0, 7.5, 10.0] {
                jobs.push((fs, t));
            }
        }
        let jr = &jobs;
        par_ranges(ctx, &mut rep, jobs.len() as u64, jobs.len() as u64, |_, lo, hi, lc| {
            for j in lo..hi {
                let (fs, t) = jr[j as usize];
                for level in [1.0e-30f32, 1.0e-13, 0.3, 1.9, 2.5, 60.0, 1000.0, 1.0e6, 3.0e38] {
                    let n = ((3.0 * t as f64 * fs as f64) as usize).min(if thorough { 400_000 } else { 70_000 }) + 64;
                    let r = std::panic::catch_unwind(|| {
                        let mut g = synth_utils::glide_processor::GlideProcessor::new(fs);
                        g.set_time(t);
                        let mut y = 0.0f32;
                        for _ in 0..n {
                            y = g.process(level);
                        }
                        for _ in 0..n / 2 {
                            y = g.process(-level);
                        }
                        for _ in 0..n / 4 {
                            y = g.process(level * 0.5);
                        }
                        y
                    });
                    lc.count("glide_long_holds", 1);
                    match r {
                        Err(e) => lc.violation(viol("panic-glide", format!("glide processor at {} Hz, time {} s, level {:e}: {}", fs, t, level, panic_msg(&e)), "glide", json!({"fs": fs}), vec![format!("set_time:{:?}", t), format!("process:{:?}*{}", level, n), format!("process:{:?}*{}", -level, n / 2), format!("process:{:?}*{}", level * 0.5, n / 4)])),
                        Ok(_) => {}
                    }
                }
            }
        });
    }
    // quantizer
    {
        let mut edits: Vec<QOp> = vec![QOp::Forbid(vec![0]), QOp::Allow(vec![0]), QOp::Forbid(vec![255, 11]), QOp::Allow(vec![200]), QOp::Forbid((0..12).collect()), QOp::Forbid(vec![12, 13, 14, 15, 16])];
        edits.push(QOp::Allow((0..=255).collect()));
        edits.push(QOp::Forbid(vec![]));
        edits.push(QOp::Allow(vec![]));
        edits.push(QOp::Forbid(vec![3, 3, 3]));
        edits.push(QOp::Forbid((0..=255).collect()));
        edits.push(QOp::Forbid((0..40).map(|i| (i * 5 % 12) as u8).collect()));
        let inputs: Vec<f32> = vec![f32::NAN, f32::INFINITY, f32::NEG_INFINITY, f32::MAX, f32::MIN, -0.0, 0.0, f32::from_bits(1), 10.0, 10.000001, 9.999999, 1.0, 4.9999995];
        let m = QuantM::new(edits, inputs);
        explore(m, &ExploreCfg { max_depth: Some(depth + 1), state_cap: 60_000_000, threads: ctx.threads, label: format!("quantizer extreme inputs, depth {}", depth + 1) }, &mut rep, P);
    }
    let e1_states = rep.states;
    rep.count("distinct_states_reached_with_extreme_arguments", e1_states);
    // ribbon
    {
        let d = if thorough { 4 } else { 3 };
        par_ranges(ctx, &mut rep, 8, 8, |_, lo, hi, lc| {
            for i in lo..hi {
                match i {
                    0 => ribbon_ext::<{ sample_rate_to_capacity(100) }>(100, d, lc),
                    1 => ribbon_ext::<{ sample_rate_to_capacity(334) }>(334, d, lc),
                    2 => ribbon_ext::<{ sample_rate_to_capacity(500) }>(500, d, lc),
                    3 => ribbon_ext::<{ sample_rate_to_capacity(1000) }>(1000, d, lc),
                    4 => ribbon_ext::<{ sample_rate_to_capacity(2000) }>(2000, d, lc),
                    5 => ribbon_ext::<{ sample_rate_to_capacity(10000) }>(10000, d.min(3), lc),
                    6 => ribbon_ext::<{ sample_rate_to_capacity(48000) }>(48000, 2, lc),
                    _ => ribbon_ext::<{ sample_rate_to_capacity(192000) }>(192000, 2, lc),
                }
            }
        });
        let n = rep.counters.get("ribbon_sequences").copied().unwrap_or(0);
        rep.evaluations += n;
        rep.transitions += n * d as u64;
        rep.traces += n;
        rep.states += n;
    }
    // MIDI: all three-byte sequences from five states
    {
        let preludes: Vec<Vec<u8>> = vec![vec![], vec![0x90, 60, 100], vec![0x90, 60], vec![0xB0, 1], vec![0xE0], ];
        let pr = &preludes;
        let stride: u64 = if thorough { 1 } else { 1 };
        par_ranges(ctx, &mut rep, 5 * 256 / stride, 5 * 256 / stride, |_, lo, hi, lc| {
            for j in lo..hi {
                let pi = (j / 256) as usize;
                let b0 = (j % 256) as u8;
                let mut base = MonoMidiReceiver::new(0);
                for b in &pr[pi] {
                    base.parse(*b);
                }
                let mut a = base.verif_clone();
                a.parse(b0);
                for b1 in 0..=255u8 {
                    let r = std::panic::catch_unwind(std::panic::AssertUnwindSafe(|| {
                        let mut b = a.verif_clone();
                        b.parse(b1);
                        for b2 in 0..=255u8 {
                            let mut c = b.verif_clone();
                            c.parse(b2);
                            let _ = (c.note_num(), c.velocity(), c.pitch_bend(), c.gate(), c.rising_gate(), c.falling_gate());
                        }
                    }));
                    lc.count("midi_three_byte_sequences", 256);
                    if let Err(e) = r {
                        // find the third byte
                        let mut ops: Vec<String> = pr[pi].iter().map(|b| format!("byte:{}", b)).collect();
                        ops.push(format!("byte:{}", b0));
                        ops.push(format!("byte:{}", b1));
                        lc.violation(viol("panic-midi", format!("parse panicked: {}", panic_msg(&e)), "midi", json!({"channel": 0}), ops));
                    }
                }
            }
        });
        let n = rep.counters.get("midi_three_byte_sequences").copied().unwrap_or(0);
        rep.evaluations += n;
        rep.transitions += n;
        rep.traces += n;
        rep.states += n;
    }
    // note and channel bytes
    for n in 0..=255u8 {
        let r = std::panic::catch_unwind(|| {
            let mut q = Quantizer::new();
            q.forbid(&[Note::from(n)]);
            q.allow(&[Note::new(n)]);
            let _ = q.is_allowed(n.into());
            let _ = q.convert(n as f32 / 25.0);
            let mut m = MonoMidiReceiver::new(n);
            for b in [0x90 | (n & 15), n & 127, 100, n] {
                m.parse(b);
            }
        });
        rep.count("note_and_channel_bytes", 1);
        if let Err(e) = r {
            rep.violation(viol("panic-byte-argument", format!("note / channel byte {}: {}", n, panic_msg(&e)), "clamp", json!({}), vec![format!("note:{}", n)]));
        }
    }
    // quantizer convert over bit patterns
    {
        let stride: u64 = if thorough { 1 } else { 257 };
        let scales: Vec<u16> = if thorough { vec![0xfff, 0x001, 0x800, 0x421] } else { vec![0xfff, 0x800] };
        let n = (1u64 << 32) / stride;
        for mask in scales {
            par_ranges(ctx, &mut rep, n, 512, |_, lo, hi, lc| {
                let template = crate::p_quant::with_scale(mask);
                let mut q = template.verif_clone();
                let mut i = lo;
                while i < hi {
                    let end = (i + 65536).min(hi);
                    let mut outside = 0u64;
                    let r = std::panic::catch_unwind(std::panic::AssertUnwindSafe(|| {
                        for k in i..end {
                            let x = f32::from_bits((k * stride) as u32);
                            if !(x >= 0.0 && x <= 10.0) {
                                outside += 1;
                            }
                            let c = q.convert(x);
                            if c.note_num > 143 {
                                panic!("note number {} out of range for input bits {:#x}", c.note_num, k * stride);
                            }
                        }
                    }));
                    if let Err(e0) = r {
                        // locate the input
                        let mut located = false;
                        for k in i..end {
                            let bits = (k * stride) as u32;
                            let r1 = std::panic::catch_unwind(|| {
                                let mut q1 = crate::p_quant::with_scale(mask);
                                q1.convert(f32::from_bits(bits))
                            });
                            if let Err(e) = r1 {
                                lc.violation(viol("panic-quantizer", format!("convert({:?}) on scale {:012b}: {}", f32::from_bits(bits), mask, panic_msg(&e)), "quantizer", json!({}), vec![format!("convert:0x{:08x}", bits)]));
                                located = true;
                                break;
                            }
                        }
                        if !located {
                            // no single input panics on a fresh quantizer: the panic needs the conversions before it
                            let mut ops = crate::p_quant::scale_script_pub(mask);
                            ops.push(format!("# then convert(f32::from_bits(k * {})) for k = {} ..= {} on the same quantizer", stride, lo, end - 1));
                            lc.violation(viol("panic-quantizer-with-history", format!("scale {:012b}: a quantizer that had converted the bit patterns {:#x}, {:#x}, ... panicked between {:#x} and {:#x}: {}", mask, lo * stride, (lo + 1) * stride, i * stride, (end - 1) * stride, panic_msg(&e0)), "quantizer", json!({}), ops));
                        }
                        q = template.verif_clone();
                    }
                    lc.count("convert_bit_patterns", end - i);
                    lc.count("convert_bit_patterns_outside_0_10_or_nan", outside);
                    i = end;
                }
            });
        }
        let n = rep.counters.get("convert_bit_patterns").copied().unwrap_or(0);
        rep.evaluations += n;
        rep.transitions += n;
        rep.traces += n;
    }
    c17_more(ctx, &mut rep, thorough);
    // termination: every envelope reaches sustain and rest
    {
        let mut scratch = Report::new();
        let sub = Ctx { id: ctx.id.clone(), tier: Tier::Quick, seed: ctx.seed, root: ctx.root.clone(), threads: ctx.threads, start: ctx.start };
        crate::p_adsr::plane(&sub, &mut scratch, 1 << 25);
        // extreme finite times at every rate of the menu
        let times = [f32::MIN, -1.0, 0.0, f32::from_bits(1), 1.0e-10, 0.001, 0.0011, 0.0137, 1.0e10, f32::MAX];
        let pairs = (rates.len() * times.len()) as u64;
        par_ranges(ctx, &mut scratch, pairs, pairs, |_, lo, hi, lc| {
            for i in lo..hi {
                let (fs, t) = (rates[i as usize / times.len()], times[i as usize % times.len()]);
                // quick: of the long configurations only the longest one (f32::MAX, clamped to 20 s) is run at every rate
                if (t.max(0.001).min(20.0) as f64) * (fs as f64) > 2.0e5 && !thorough && t != f32::MAX {
                    continue;
                }
                crate::p_adsr::run_config(fs, t, lc, 1 << 25);
                lc.count("configurations", 1);
                if (t.max(0.001).min(20.0) as f64) * (fs as f64) > (1u64 << 20) as f64 {
                    lc.count("configurations_longer_than_2^20_ticks_per_phase", 1);
                }
            }
        });
        let n = scratch.counters.get("configurations").copied().unwrap_or(0);
        rep.count("envelopes_run_to_completion", n);
        rep.count("envelopes_longer_than_2^20_ticks_per_phase", scratch.counters.get("configurations_longer_than_2^20_ticks_per_phase").copied().unwrap_or(0));
        rep.evaluations += n;
        rep.transitions += scratch.counters.get("ticks").copied().unwrap_or(0);
        rep.states += n;
        rep.traces += n;
        let never = scratch.per_class.get("phase-never-ends").copied().unwrap_or(0);
        let mut kept = 0;
        for v in scratch.violations {
            if v.class == "phase-never-ends" {
                kept += 1;
                rep.violation(Violation { prop: "C17", class: "envelope-never-finishes".into(), ..v });
            }
        }
        rep.violations_total += never - kept;
        *rep.per_class.entry("envelope-never-finishes".into()).or_insert(0) += never - kept;
        for e in scratch.machinery_errors {
            rep.machinery(e);
        }
    }
    rep.nontrivial = e1_states + rep.counters.get("convert_bit_patterns_outside_0_10_or_nan").copied().unwrap_or(0);
    rep.exhaustive = false;
    rep.require_nonzero("midi_three_byte_sequences");
    rep.require_nonzero("convert_bit_patterns");
    rep.require_nonzero("envelopes_run_to_completion");
    rep.require_nonzero("envelopes_longer_than_2^20_ticks_per_phase");
    rep.sample(json!({"adsr": ["attack:NaN", "gate_on", "tick"], "lfo": ["phase:-3.4028235e38", "tick"], "glide": ["set_time:1e-45", "process:1.0"], "quantizer": ["convert:NaN"], "midi": ["byte:255", "byte:247", "byte:144"]}));
    rep.assumptions.push("a hang inside a single call cannot occur (no unbounded loop in the crate); 'fails to return' is therefore checked as an envelope that never reaches sustain / rest under a watchdog".into());
    rep
}

/// one long repetition under catch_unwind; `f` receives the repeat count
fn long_rep(rep_out: &std::sync::Mutex<Vec<Violation>>, label: String, machine: &'static str, config: serde_json::Value, ops: Vec<String>, f: impl FnOnce() + std::panic::UnwindSafe) {
    if let Err(e) = std::panic::catch_unwind(f) {
        rep_out.lock().unwrap().push(viol("panic-in-a-long-run", format!("{}: {}", label, panic_msg(&e)), machine, config, ops));
    }
}

fn ribbon_idle<const C: usize>(fs: u32, n: u64) {
    let mut r = RibbonController::<C>::new(fs as f32, 20e3, 820.0, 1e6);
    for _ in 0..n {
        r.poll(1.0);
    }
    // then a press, a lift and the getters
    for _ in 0..(2 * C + 40) {
        r.poll(0.4);
    }
    let _ = (r.value(), r.finger_is_pressing(), r.finger_just_pressed(), r.finger_just_released());
    r.poll(1.0);
    let _ = (r.value(), r.finger_is_pressing(), r.finger_just_pressed(), r.finger_just_released());
    // and a press held for as long
    for _ in 0..n {
        r.poll(0.3);
    }
    let v = r.value();
    if !(v >= 0.0 && v <= 1.0) {
        panic!("value() = {:?} after a long press", v);
    }
    // as many short touches (never a press)
    r.poll(1.0);
    for i in 0..(2 * n).min(400_000) {
        r.poll(if i % 2 == 0 { 0.35 } else { 1.0 });
    }
    let _ = (r.value(), r.finger_is_pressing(), r.finger_just_pressed(), r.finger_just_released());
}

/// a sample rate with a fractional part: the buffer is sized by the helper from the whole number of hertz below it
fn ribbon_fractional<const C: usize>(fs: f32) {
    for (sp, dr, pu) in [(20e3f32, 820.0f32, 1e6f32), (10e3, 1e3, 11e3)] {
        let mut r = RibbonController::<C>::new(fs, sp, dr, pu);
        for _ in 0..(3 * C + 40) {
            r.poll(0.4);
        }
        let _ = (r.value(), r.finger_is_pressing(), r.finger_just_pressed(), r.finger_just_released());
        r.poll(1.0);
        for _ in 0..(3 * C + 40) {
            r.poll(0.2);
        }
        let v = r.value();
        if !(v >= 0.0 && v <= 1.0) {
            panic!("value() = {:?}", v);
        }
    }
}

/// (4) ordinary, interior argument values at many sample rates (the extreme-argument alphabets contain none), and
/// (5) long repetitions for the modules and operations that had none: one operation repeated more often than a 16-bit
/// (thorough: 32-bit) counter can hold
fn c17_more(ctx: &Ctx, rep: &mut Report, thorough: bool) {
    use synth_utils::adsr::{Adsr, Input};
    use synth_utils::glide_processor::GlideProcessor;
    use synth_utils::lfo::{Lfo, Waveshape};
    let rates: [f32; 10] = [100.0, 100.9, 999.0, 1000.0, 22050.0, 44100.0, 44117.647, 48000.0, 96000.0, 192000.0];
    // LFO: a grid of ordinary frequencies at every rate
    par_ranges(ctx, rep, rates.len() as u64 * 1000, 64, |_, lo, hi, lc| {
        for i in lo..hi {
            let fs = rates[(i / 1000) as usize];
            let k = i % 1000;
            let f = match k {
                0 => 0.3,
                1 => 1.0,
                2 => 7.0,
                3 => 440.0f32.min(fs),
                4 => 0.123_456 * fs,
                5 => 0.01,
                _ => fs * (k as f32 - 5.0) / 994.3,
            };
            let r = std::panic::catch_unwind(|| {
                let mut l = Lfo::new(fs);
                l.set_frequency(f.min(fs));
                for _ in 0..4 {
                    l.tick();
                    let _ = (l.get(Waveshape::Sine), l.get(Waveshape::Triangle), l.get(Waveshape::UpSaw), l.get(Waveshape::DownSaw), l.get(Waveshape::Square));
                }
                l.set_phase(0.37);
                l.tick();
                l.set_frequency(f * 0.5);
                l.tick();
                l.reset();
                l.get(Waveshape::Sine)
            });
            lc.count("ordinary_argument_cases", 1);
            if let Err(e) = r {
                lc.violation(viol("panic-lfo", format!("oscillator at {} Hz, frequency {:?}: {}", fs, f, panic_msg(&e)), "lfo", json!({"fs": fs}), vec![format!("freq:{:?}", f.min(fs)), "tick*4".into(), "phase:0.37".into(), "tick".into(), format!("freq:{:?}", f * 0.5), "tick".into(), "reset".into()]));
            }
        }
    });
    // ADSR and glide: ordinary times and levels at every rate
    let times: [f32; 9] = [0.0013, 0.003, 0.0137, 0.05, 0.1, 0.37, 1.0, 3.3, 12.5];
    par_ranges(ctx, rep, (rates.len() * times.len()) as u64, 64, |_, lo, hi, lc| {
        for i in lo..hi {
            let fs = rates[i as usize / times.len()];
            let t = times[i as usize % times.len()];
            for level in [0.0f32, 0.33, 0.7, 1.0] {
                let r = std::panic::catch_unwind(|| {
                    let mut a = Adsr::new(fs);
                    a.set_input(Input::Attack(t.into()));
                    a.set_input(Input::Decay((t * 0.7).into()));
                    a.set_input(Input::Sustain(level.into()));
                    a.set_input(Input::Release((t * 1.3).into()));
                    a.gate_on();
                    for k in 0..3000 {
                        a.tick();
                        if k == 1700 {
                            a.gate_on();
                        }
                    }
                    a.gate_off();
                    for _ in 0..3000 {
                        a.tick();
                    }
                    a.value()
                });
                lc.count("ordinary_argument_cases", 1);
                if let Err(e) = r {
                    lc.violation(viol("panic-adsr", format!("envelope at {} Hz, times {:?} s, sustain {:?}: {}", fs, t, level, panic_msg(&e)), "adsr", json!({"fs": fs}), vec![format!("attack:{:?}", t), format!("decay:{:?}", t * 0.7), format!("sustain:{:?}", level), format!("release:{:?}", t * 1.3), "gate_on".into(), "tick*1701".into(), "gate_on".into(), "tick*1299".into(), "gate_off".into(), "tick*3000".into()]));
                }
                let r = std::panic::catch_unwind(|| {
                    let mut g = GlideProcessor::new(fs);
                    g.set_time(t);
                    let mut y = 0.0;
                    for k in 0..2000 {
                        y = g.process(if k < 1000 { level } else { 0.21 });
                        if k == 1500 {
                            g.set_time(t * 0.5);
                        }
                    }
                    y
                });
                lc.count("ordinary_argument_cases", 1);
                if let Err(e) = r {
                    lc.violation(viol("panic-glide", format!("glide processor at {} Hz, time {:?} s, level {:?}: {}", fs, t, level, panic_msg(&e)), "glide", json!({"fs": fs}), vec![format!("set_time:{:?}", t), format!("process:{:?}*1000", level), "process:0.21*501".into(), format!("set_time:{:?}", t * 0.5), "process:0.21*499".into()]));
                }
            }
        }
    });
    // MIDI: the two mode setters in every combination around every three-message note pattern
    {
        use synth_utils::mono_midi_receiver::{NotePriority, RetriggerMode};
        let r = std::panic::catch_unwind(|| {
            for pri in 0..3 {
                for rt in 0..2 {
                    for pat in 0..(4096u32 * 16) {
                        let (pri_at, rt_at) = ((pat >> 12) & 3, (pat >> 14) & 3);
                        let mut m = MonoMidiReceiver::new(0);
                        for step in 0..4 {
                            let code = (pat >> (3 * step)) & 7;
                            if step == pri_at {
                                m.set_note_priority(match pri { 0 => NotePriority::Last, 1 => NotePriority::High, _ => NotePriority::Low });
                            }
                            if step == rt_at {
                                m.set_retrigger_mode(if rt == 0 { RetriggerMode::AllowRetrigger } else { RetriggerMode::NoRetrigger });
                            }
                            let (st, d1, d2) = match code {
                                0 => (0x90u8, 60u8, 100u8),
                                1 => (0x90, 72, 1),
                                2 => (0x90, 48, 127),
                                3 => (0x80, 60, 0),
                                4 => (0x80, 72, 64),
                                5 => (0x90, 60, 0),
                                6 => (0xB0, 123, 0),
                                _ => (0x80, 48, 127),
                            };
                            for b in [st, d1, d2] {
                                m.parse(b);
                            }
                            let _ = (m.note_num(), m.gate(), m.rising_gate(), m.falling_gate(), m.velocity());
                        }
                    }
                }
            }
        });
        rep.count("ordinary_argument_cases", 3 * 2 * 4096 * 16);
        if let Err(e) = r {
            rep.violation(viol("panic-midi", format!("note messages with the priority / retrigger setters in between: {}", panic_msg(&e)), "midi", json!({"channel": 0}), vec!["# 4 note messages from a menu of 8 with set_note_priority and set_retrigger_mode before any of them (all 16 placements)".into()]));
        }
    }
    // ribbon: sample rates that are not whole numbers of hertz (buffer sized by the helper from the integer part)
    {
        let r = std::panic::catch_unwind(|| {
            for frac in [0.25f32, 0.5, 0.75, 0.96875] {
                ribbon_fractional::<{ sample_rate_to_capacity(100) }>(100.0 + frac);
                ribbon_fractional::<{ sample_rate_to_capacity(133) }>(133.0 + frac);
                ribbon_fractional::<{ sample_rate_to_capacity(333) }>(333.0 + frac);
                ribbon_fractional::<{ sample_rate_to_capacity(499) }>(499.0 + frac);
                ribbon_fractional::<{ sample_rate_to_capacity(999) }>(999.0 + frac);
                ribbon_fractional::<{ sample_rate_to_capacity(1999) }>(1999.0 + frac);
                ribbon_fractional::<{ sample_rate_to_capacity(22050) }>(22050.0 + frac);
                ribbon_fractional::<{ sample_rate_to_capacity(44117) }>(44117.0 + frac);
                ribbon_fractional::<{ sample_rate_to_capacity(47999) }>(47999.0 + frac);
                ribbon_fractional::<{ sample_rate_to_capacity(191999) }>(191999.0 + frac);
            }
        });
        rep.count("ordinary_argument_cases", 40);
        if let Err(e) = r {
            rep.violation(viol("panic-ribbon", format!("ribbon controller at a non-integer sample rate (buffer sized by the helper from the whole hertz below): {}", panic_msg(&e)), "ribbon", json!({"fs": 499.5, "softpot": 20e3, "dropper": 820.0, "pullup": 1e6}), vec!["# RibbonController::<{sample_rate_to_capacity(n)}>::new(n + frac) for n in {100,133,333,499,999,1999,22050,44117,47999,191999}, frac in {.25,.5,.75,.96875}".into()]));
        }
    }
    // long repetitions, in parallel threads
    let n: u64 = if thorough { (1u64 << 32) + 70_000 } else { 70_000 };
    let found: std::sync::Mutex<Vec<Violation>> = std::sync::Mutex::new(Vec::new());
    let fr = &found;
    std::thread::scope(|sc| {
        sc.spawn(move || {
            long_rep(fr, format!("quantizer: one input converted {} times (the note is held all the time)", n), "quantizer", json!({}), vec![format!("convert:3.3*{}", n)], move || {
                let mut q = Quantizer::new();
                for _ in 0..n {
                    q.convert(3.3);
                }
            })
        });
        sc.spawn(move || {
            long_rep(fr, format!("quantizer: inputs wandering inside one widened bucket, {} conversions, then a scale edit", n), "quantizer", json!({}), vec!["# convert 5.04, 5.05, 5.06, 4.995 in turn".into()], move || {
                let mut q = Quantizer::new();
                for i in 0..n {
                    q.convert([5.04f32, 5.05, 5.06, 4.995][(i % 4) as usize]);
                }
                q.forbid(&[Note::from(0)]);
                q.convert(5.04);
            })
        });
        sc.spawn(move || {
            long_rep(fr, format!("quantizer: {} scale edits (allow / forbid in turn) with a conversion now and then", n), "quantizer", json!({}), vec!["# forbid:5 / allow:5 in turn".into()], move || {
                let mut q = Quantizer::new();
                for i in 0..n {
                    if i % 2 == 0 {
                        q.forbid(&[Note::from(5)]);
                    } else {
                        q.allow(&[Note::from(5)]);
                    }
                    if i % 4099 == 0 {
                        q.convert(2.4);
                    }
                }
            })
        });
        sc.spawn(move || {
            long_rep(fr, format!("ribbon at 1 kHz: {} polls untouched, a press, a lift, a press of {} polls", n, n), "ribbon", json!({"fs": 1000, "softpot": 20e3, "dropper": 820.0, "pullup": 1e6}), vec![format!("poll:1.0*{}", n), "poll:0.4*76".into(), "poll:1.0".into(), format!("poll:0.3*{}", n)], move || ribbon_idle::<{ sample_rate_to_capacity(1000) }>(1000, n))
        });
        sc.spawn(move || {
            let n2 = n.min(200_000);
            long_rep(fr, format!("ribbon at 48 kHz: {} polls untouched, a press, a lift, a press of {} polls", n2, n2), "ribbon", json!({"fs": 48000, "softpot": 20e3, "dropper": 820.0, "pullup": 1e6}), vec![format!("poll:1.0*{}", n2)], move || ribbon_idle::<{ sample_rate_to_capacity(48000) }>(48000, n2))
        });
        if thorough {
            // the 32-bit horizon for the modules whose 16-bit horizon is covered above
            sc.spawn(move || {
                long_rep(fr, format!("envelope: {} ticks at rest, then a note held for as long", n), "adsr", json!({"fs": 48000.0}), vec![format!("tick*{}", n), "gate_on".into(), format!("tick*{}", n)], move || {
                    let mut a = Adsr::new(48000.0);
                    for _ in 0..n {
                        a.tick();
                    }
                    a.gate_on();
                    for _ in 0..n {
                        a.tick();
                    }
                    a.gate_off();
                    for _ in 0..100_000 {
                        a.tick();
                    }
                })
            });
            sc.spawn(move || {
                long_rep(fr, format!("glide: {} samples of one input", n), "glide", json!({"fs": 48000.0}), vec!["set_time:0.3".into(), format!("process:0.7*{}", n)], move || {
                    let mut g = GlideProcessor::new(48000.0);
                    g.set_time(0.3);
                    for _ in 0..n {
                        g.process(0.7);
                    }
                })
            });
            sc.spawn(move || {
                long_rep(fr, format!("MIDI: {} timing-clock bytes with a note held", n), "midi", json!({"channel": 0}), vec!["byte:144".into(), "byte:60".into(), "byte:100".into(), format!("byte:248*{}", n)], move || {
                    let mut m = MonoMidiReceiver::new(0);
                    for b in [0x90u8, 60, 100] {
                        m.parse(b);
                    }
                    for _ in 0..n {
                        m.parse(0xF8);
                    }
                    for _ in 0..(n / 3) {
                        m.parse(0x90);
                        m.parse(61);
                        m.parse(0);
                    }
                })
            });
        }
    });
    let k = if thorough { 8 } else { 5 };
    rep.count("long_run_scripts", k);
    rep.evaluations += n * k;
    rep.transitions += n * k;
    for v in found.into_inner().unwrap() {
        rep.violation(v);
    }
    rep.require_nonzero("ordinary_argument_cases");
}
