//! Shared plumbing: run context, violation records, known-findings file,
//! evidence writer, deterministic parallel range helper, float helpers.

use serde_json::{json, Map, Value};
use std::collections::BTreeMap;
use std::path::PathBuf;
use std::time::Instant;

#[derive(Clone, Copy, PartialEq, Eq, Debug)]
pub enum Tier {
    Quick,
    Thorough,
}

impl Tier {
    pub fn name(self) -> &'static str {
        match self {
            Tier::Quick => "quick",
            Tier::Thorough => "thorough",
        }
    }
    pub fn is_thorough(self) -> bool {
        self == Tier::Thorough
    }
}

pub struct Ctx {
    pub id: String,
    pub tier: Tier,
    pub seed: i64,
    pub root: PathBuf,
    pub threads: usize,
    pub start: Instant,
}

/// One observed violation of a property.
#[derive(Clone, Debug)]
pub struct Violation {
    pub prop: &'static str,
    /// named failure class (a predicate implemented in the harness); used for
    /// grouping, for the per-class cap and for matching known findings
    pub class: String,
    /// what was observed vs. expected
    pub detail: String,
    /// machine name for the replay script
    pub machine: &'static str,
    /// machine configuration
    pub config: Value,
    /// the operation list (script) that reproduces it from a fresh object
    pub ops: Vec<String>,
}

impl Violation {
    pub fn case_string(&self) -> String {
        format!("{} {} {}", self.machine, self.config, self.ops.join(","))
    }
}

/// Accumulates what a run covered. Sub-runs (one per machine / sweep) add to it.
pub struct Report {
    pub states: u64,
    pub transitions: u64,
    pub evaluations: u64,
    pub traces: u64,
    pub nontrivial: u64,
    pub exhaustive: bool,
    pub counters: BTreeMap<String, u64>,
    pub maxima: BTreeMap<String, f64>,
    pub samples: Vec<Value>,
    pub subruns: Vec<Value>,
    pub assumptions: Vec<String>,
    pub rule: Vec<String>,
    pub violations: Vec<Violation>,
    pub violations_total: u64,
    pub per_class: BTreeMap<String, u64>,
    pub machinery_errors: Vec<String>,
    pub marks: Vec<(String, f64)>,
    pub t0: Instant,
}

pub const PER_CLASS_CAP: u64 = 8;

impl Report {
    pub fn new() -> Self {
        Report {
            states: 0,
            transitions: 0,
            evaluations: 0,
            traces: 0,
            nontrivial: 0,
            exhaustive: true,
            counters: BTreeMap::new(),
            maxima: BTreeMap::new(),
            samples: Vec::new(),
            subruns: Vec::new(),
            assumptions: Vec::new(),
            rule: Vec::new(),
            violations: Vec::new(),
            violations_total: 0,
            per_class: BTreeMap::new(),
            machinery_errors: Vec::new(),
            marks: Vec::new(),
            t0: Instant::now(),
        }
    }
    /// record the wall time since the report was created under a label (goes into the evidence as phase_times_s)
    pub fn mark(&mut self, label: &str) {
        let t = self.t0.elapsed().as_secs_f64();
        self.marks.push((label.to_string(), (t * 100.0).round() / 100.0));
    }
    pub fn count(&mut self, k: &str, n: u64) {
        *self.counters.entry(k.to_string()).or_insert(0) += n;
    }
    pub fn maxf(&mut self, k: &str, v: f64) {
        let e = self.maxima.entry(k.to_string()).or_insert(f64::NEG_INFINITY);
        if v > *e {
            *e = v;
        }
    }
    pub fn sample(&mut self, v: Value) {
        if self.samples.len() < 12 {
            self.samples.push(v);
        }
    }
    pub fn violation(&mut self, v: Violation) {
        self.violations_total += 1;
        let c = self.per_class.entry(v.class.clone()).or_insert(0);
        *c += 1;
        if *c <= PER_CLASS_CAP {
            self.violations.push(v);
        }
    }
    pub fn machinery(&mut self, msg: String) {
        self.machinery_errors.push(msg);
    }
    /// vacuity guard: a counter that must be non-zero for the run to mean anything
    pub fn require_nonzero(&mut self, k: &str) {
        if self.counters.get(k).copied().unwrap_or(0) == 0 {
            self.machinery(format!("vacuity guard: counter '{}' is zero", k));
        }
    }
    pub fn merge_counts(&mut self, o: &LocalCounts) {
        for (k, v) in &o.counters {
            *self.counters.entry(k.to_string()).or_insert(0) += *v;
        }
        for (k, v) in &o.maxima {
            let e = self.maxima.entry(k.to_string()).or_insert(f64::NEG_INFINITY);
            if *v > *e {
                *e = *v;
            }
        }
    }
}

/// thread-local counters for sweeps, merged deterministically
#[derive(Default, Clone)]
pub struct LocalCounts {
    pub counters: BTreeMap<&'static str, u64>,
    pub maxima: BTreeMap<&'static str, f64>,
    pub viols: Vec<Violation>,
    pub viol_total: u64,
    pub per_class: BTreeMap<String, u64>,
}

impl LocalCounts {
    pub fn count(&mut self, k: &'static str, n: u64) {
        *self.counters.entry(k).or_insert(0) += n;
    }
    pub fn maxf(&mut self, k: &'static str, v: f64) {
        let e = self.maxima.entry(k).or_insert(f64::NEG_INFINITY);
        if v > *e {
            *e = v;
        }
    }
    pub fn violation(&mut self, v: Violation) {
        self.viol_total += 1;
        let c = self.per_class.entry(v.class.clone()).or_insert(0);
        *c += 1;
        if *c <= PER_CLASS_CAP {
            self.viols.push(v);
        }
    }
}

/// Run `f(shard_index, lo, hi, &mut LocalCounts)` over `[0, n)` split into `shards`
/// contiguous pieces executed on `threads` threads; results are merged in shard
/// order, so the outcome does not depend on scheduling. A panic inside `f`
/// (other than the ones the checks catch themselves) is a machinery error.
pub fn par_ranges<F>(ctx: &Ctx, rep: &mut Report, n: u64, shards: u64, f: F)
where
    F: Fn(u64, u64, u64, &mut LocalCounts) + Sync,
{
    let shards = shards.max(1).min(n.max(1));
    let next = std::sync::atomic::AtomicU64::new(0);
    let results: std::sync::Mutex<Vec<(u64, LocalCounts)>> = std::sync::Mutex::new(Vec::new());
    let errs: std::sync::Mutex<Vec<String>> = std::sync::Mutex::new(Vec::new());
    let subject_panics: std::sync::Mutex<Vec<(u64, String)>> = std::sync::Mutex::new(Vec::new());
    std::thread::scope(|s| {
        for _ in 0..ctx.threads {
            s.spawn(|| loop {
                let i = next.fetch_add(1, std::sync::atomic::Ordering::SeqCst);
                if i >= shards {
                    break;
                }
                let lo = n / shards * i + (n % shards).min(i);
                let hi = n / shards * (i + 1) + (n % shards).min(i + 1);
                let mut lc = LocalCounts::default();
                let r = std::panic::catch_unwind(std::panic::AssertUnwindSafe(|| {
                    f(i, lo, hi, &mut lc);
                }));
                if let Err(e) = r {
                    if last_panic_in_harness() {
                        errs.lock().unwrap().push(format!("shard {} panicked in the harness at {}: {}", i, last_panic_location(), panic_msg(&e)));
                    } else {
                        // the subject (or a dependency) panicked in a place where the check had no finer-grained
                        // handler: a violation of the property under check, with a coarse replay hint
                        subject_panics.lock().unwrap().push((i, format!("the real code panicked at {}: {}", last_panic_location(), panic_msg(&e))));
                    }
                }
                results.lock().unwrap().push((i, lc));
            });
        }
    });
    let mut results = results.into_inner().unwrap();
    results.sort_by_key(|r| r.0);
    for (_, lc) in results {
        rep.merge_counts(&lc);
        let mut kept: BTreeMap<String, u64> = BTreeMap::new();
        let stored = lc.viols.len() as u64;
        for v in lc.viols {
            *kept.entry(v.class.clone()).or_insert(0) += 1;
            rep.violation(v);
        }
        // the capped remainder of each class
        rep.violations_total += lc.viol_total - stored;
        for (k, v) in &lc.per_class {
            *rep.per_class.entry(k.clone()).or_insert(0) += v - kept.get(k).copied().unwrap_or(0);
        }
    }
    for e in errs.into_inner().unwrap() {
        rep.machinery(e);
    }
    let mut sp = subject_panics.into_inner().unwrap();
    sp.sort();
    for (i, d) in sp {
        let id: &'static str = Box::leak(ctx.id.clone().into_boxed_str());
        rep.violation(Violation { prop: id, class: "panic".to_string(), detail: format!("{} (in part {} of {} of a sweep; the sweep is described in the evidence file)", d, i + 1, shards), machine: "none", config: json!({}), ops: vec![format!("# no operation list was recorded for this case; rerun ./check {} {}", ctx.id, ctx.tier.name())] });
    }
}

pub fn panic_msg(e: &Box<dyn std::any::Any + Send>) -> String {
    if let Some(s) = e.downcast_ref::<&str>() {
        s.to_string()
    } else if let Some(s) = e.downcast_ref::<String>() {
        s.clone()
    } else {
        "non-string panic payload".to_string()
    }
}

/// Install a panic hook that stays silent (the checks catch panics of the
/// subject on purpose and report them themselves).
pub static LAST_PANIC: std::sync::Mutex<String> = std::sync::Mutex::new(String::new());

thread_local! {
    /// file:line of the last panic raised on this thread (set by the panic hook)
    pub static PANIC_LOCATION: std::cell::RefCell<String> = std::cell::RefCell::new(String::new());
}

pub fn quiet_panics() {
    std::panic::set_hook(Box::new(|info| {
        let loc = info.location().map(|l| format!("{}:{}", l.file(), l.line())).unwrap_or_default();
        PANIC_LOCATION.with(|p| *p.borrow_mut() = loc);
        if let Ok(mut g) = LAST_PANIC.try_lock() {
            *g = format!("{}", info);
        }
    }));
}

/// did the last panic on this thread come from the harness's own sources (as opposed to the subject, its
/// dependencies or the standard library called from them)?
pub fn last_panic_in_harness() -> bool {
    PANIC_LOCATION.with(|p| {
        let l = p.borrow();
        l.starts_with("src/") && !l.contains("/repo/")
    })
}

pub fn last_panic_location() -> String {
    PANIC_LOCATION.with(|p| p.borrow().clone())
}

// ---------------------------------------------------------------- floats

pub fn ulp32(x: f32) -> f32 {
    let a = x.abs();
    if !a.is_finite() {
        return f32::NAN;
    }
    if a < f32::MIN_POSITIVE {
        return f32::from_bits(1);
    }
    let b = a.to_bits();
    f32::from_bits(b + 1) - a
}

pub fn fstr(x: f32) -> String {
    // shortest representation that round-trips, plus the bit pattern when not obviously exact
    format!("{:?}", x)
}

pub fn parse_f32(s: &str) -> f32 {
    if let Some(h) = s.strip_prefix("0x") {
        return f32::from_bits(u32::from_str_radix(h, 16).expect("hex f32 bits"));
    }
    match s {
        "inf" => f32::INFINITY,
        "-inf" => f32::NEG_INFINITY,
        "NaN" | "nan" => f32::NAN,
        _ => s.parse::<f32>().unwrap_or_else(|_| panic!("bad f32 '{}'", s)),
    }
}

/// FNV-1a style 128-bit hash of words (two independent 64-bit lanes)
#[derive(Clone, Copy)]
pub struct Hash128 {
    a: u64,
    b: u64,
}

impl Hash128 {
    pub fn new() -> Self {
        Hash128 { a: 0xcbf29ce484222325, b: 0x9e3779b97f4a7c15 }
    }
    #[inline]
    pub fn word(&mut self, w: u64) {
        self.a = (self.a ^ w).wrapping_mul(0x100000001b3);
        self.a ^= self.a >> 29;
        self.b = (self.b.rotate_left(23) ^ w.wrapping_mul(0xff51afd7ed558ccd)).wrapping_mul(0xc4ceb9fe1a85ec53);
        self.b ^= self.b >> 31;
    }
    pub fn bytes(&mut self, bs: &[u8]) {
        self.word(bs.len() as u64);
        for c in bs.chunks(8) {
            let mut w = 0u64;
            for (i, b) in c.iter().enumerate() {
                w |= (*b as u64) << (8 * i);
            }
            self.word(w);
        }
    }
    pub fn finish(&self) -> u128 {
        ((self.a as u128) << 64) | self.b as u128
    }
}

// ---------------------------------------------------------------- known findings

#[derive(Clone, Debug)]
pub struct Known {
    pub status: String,
    pub property: String,
    pub class: Option<String>,
    pub case: Option<String>,
    pub what: String,
}

pub fn load_known(ctx: &Ctx) -> Result<Vec<Known>, String> {
    let p = ctx.root.join("known_findings.json");
    let txt = std::fs::read_to_string(&p).map_err(|e| format!("{}: {}", p.display(), e))?;
    let v: Value = serde_json::from_str(&txt).map_err(|e| format!("{}: {}", p.display(), e))?;
    let arr = v.get("findings").and_then(|x| x.as_array()).ok_or("known_findings.json: no 'findings' array")?;
    let mut out = Vec::new();
    for e in arr {
        out.push(Known {
            status: e["status"].as_str().unwrap_or("").to_string(),
            property: e["property"].as_str().unwrap_or("").to_string(),
            class: e.get("class").and_then(|x| x.as_str()).map(|s| s.to_string()),
            case: e.get("case").and_then(|x| x.as_str()).map(|s| s.to_string()),
            what: e["what"].as_str().unwrap_or("").to_string(),
        });
    }
    Ok(out)
}

// ---------------------------------------------------------------- finish: evidence, replays, exit status

pub struct Outcome {
    pub exit: i32,
}

pub fn finish(ctx: &Ctx, mut rep: Report, level_text: &str) -> Outcome {
    let known = match load_known(ctx) {
        Ok(k) => k,
        Err(e) => {
            rep.machinery(e);
            Vec::new()
        }
    };
    let id = ctx.id.as_str();
    // classify
    let mut unlisted: Vec<Violation> = Vec::new();
    let mut known_hits: BTreeMap<String, u64> = BTreeMap::new();
    for v in rep.violations.clone().iter() {
        let case = v.case_string();
        let hit = known.iter().find(|k| {
            k.status == "known"
                && k.property == v.prop
                && (k.class.as_deref() == Some(v.class.as_str()) || k.case.as_deref() == Some(case.as_str()))
        });
        match hit {
            Some(k) => {
                *known_hits.entry(k.what.clone()).or_insert(0) += 1;
            }
            None => unlisted.push(v.clone()),
        }
    }
    for (what, _) in &known_hits {
        println!("KNOWN-FINDING: property={} {}", id, what);
    }
    // replay files for unlisted violations: first two of each class
    let mut written: Vec<String> = Vec::new();
    let mut per_class_written: BTreeMap<String, u32> = BTreeMap::new();
    let rdir = ctx.root.join("replays");
    let _ = std::fs::create_dir_all(&rdir);
    // remove stale replay files of this property
    if let Ok(rd) = std::fs::read_dir(&rdir) {
        for e in rd.flatten() {
            let n = e.file_name().to_string_lossy().to_string();
            if n.starts_with(&format!("{}-", id)) {
                let _ = std::fs::remove_file(e.path());
            }
        }
    }
    for v in &unlisted {
        let c = per_class_written.entry(v.class.clone()).or_insert(0);
        if *c >= 2 {
            continue;
        }
        *c += 1;
        let fname = format!("{}-{}-{}.json", id, sanitize(&v.class), *c);
        let path = rdir.join(&fname);
        let body = json!({
            "property": v.prop,
            "class": v.class,
            "detail": v.detail,
            "machine": v.machine,
            "config": v.config,
            "ops": v.ops,
            "replay_cmd": format!("./check replay replays/{}", fname),
        });
        if let Err(e) = std::fs::write(&path, serde_json::to_string_pretty(&body).unwrap() + "\n") {
            rep.machinery(format!("cannot write {}: {}", path.display(), e));
        }
        println!("VIOLATION property={} replay={}", id, path.display());
        println!("  class={} {}", v.class, v.detail);
        written.push(path.display().to_string());
    }
    // evidence
    let mut cov = Map::new();
    cov.insert("states".into(), json!(rep.states.max(0)));
    cov.insert("transitions".into(), json!(rep.transitions));
    cov.insert("traces_validated_against_impl".into(), json!(rep.traces));
    cov.insert("evaluations".into(), json!(rep.evaluations.max(rep.transitions)));
    cov.insert("distinct_nontrivial".into(), json!(rep.nontrivial));
    cov.insert("rule".into(), json!(rep.rule.join(" | ")));
    cov.insert("exhaustive".into(), json!(rep.exhaustive));
    cov.insert("samples".into(), Value::Array(rep.samples.clone()));
    cov.insert("counters".into(), json!(rep.counters));
    let maxima: BTreeMap<String, Value> = rep.maxima.iter().map(|(k, v)| (k.clone(), json!(v))).collect();
    cov.insert("maxima".into(), json!(maxima));
    cov.insert("subruns".into(), Value::Array(rep.subruns.clone()));
    cov.insert("explanation".into(), json!(level_text));
    cov.insert("violations_by_class".into(), json!(rep.per_class));
    cov.insert("known_findings_matched".into(), json!(known_hits));
    cov.insert("machinery_errors".into(), json!(rep.machinery_errors));
    cov.insert("threads".into(), json!(ctx.threads));
    cov.insert("phase_times_s".into(), json!(rep.marks.iter().map(|(l, t)| json!({"done": l, "at_s": t})).collect::<Vec<_>>()));
    let ev = json!({
        "property_id": id,
        "tier": ctx.tier.name(),
        "seed": ctx.seed,
        "level": "model_checking",
        "coverage": Value::Object(cov),
        "assumptions": rep.assumptions,
        "wall_s": (ctx.start.elapsed().as_secs_f64() * 1000.0).round() / 1000.0,
        "violations": rep.violations_total,
    });
    let edir = ctx.root.join("evidence");
    let _ = std::fs::create_dir_all(&edir);
    let epath = edir.join(format!("{}.json", id));
    if let Err(e) = std::fs::write(&epath, serde_json::to_string_pretty(&ev).unwrap() + "\n") {
        eprintln!("MACHINERY: cannot write evidence {}: {}", epath.display(), e);
        return Outcome { exit: 2 };
    }
    for m in &rep.machinery_errors {
        eprintln!("MACHINERY: {}", m);
    }
    // a violation demonstrated on the real code stands even if the exploration was cut short afterwards
    let exit = if !unlisted.is_empty() {
        1
    } else if !rep.machinery_errors.is_empty() {
        2
    } else {
        0
    };
    println!(
        "{} {}: states={} transitions={} evaluations={} nontrivial={} violations={} (unlisted shown={}) exhaustive={} wall={:.1}s exit={}",
        id,
        ctx.tier.name(),
        rep.states,
        rep.transitions,
        rep.evaluations.max(rep.transitions),
        rep.nontrivial,
        rep.violations_total,
        unlisted.len(),
        rep.exhaustive,
        ctx.start.elapsed().as_secs_f64(),
        exit
    );
    Outcome { exit }
}

fn sanitize(s: &str) -> String {
    s.chars().map(|c| if c.is_ascii_alphanumeric() || c == '-' || c == '_' { c } else { '_' }).collect()
}

/// expand "op*N" repeats
pub fn expand_ops(ops: &[String]) -> Vec<(String, u64)> {
    ops.iter()
        .map(|o| match o.rsplit_once('*') {
            Some((a, n)) if n.chars().all(|c| c.is_ascii_digit()) && !n.is_empty() => (a.to_string(), n.parse().unwrap()),
            _ => (o.clone(), 1),
        })
        .collect()
}
