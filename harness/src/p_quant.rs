//! Quantizer: C07 (never a forbidden note), C08 (nearest allowed note),
//! C09 (hysteresis), C19 (record consistency)

use crate::common::*;
use crate::explore::*;
use serde_json::{json, Value};
use synth_utils::quantizer::{Conversion, Note, Quantizer};

const SEMI: i64 = 250_000; // one semitone in units of 1/3 microvolt
const HALF: i64 = 125_000;
const TIE: f64 = 30.0; // 10 microvolts in the same units
const ST: f64 = 1.0 / 12.0;

pub fn notes_of(mask: u16) -> Vec<Note> {
    (0..12u8).filter(|n| mask >> n & 1 == 1).map(Note::new).collect()
}

/// a fresh quantizer with scale `mask` (non-empty), configured through the public API
pub fn with_scale(mask: u16) -> Quantizer {
    let mut q = Quantizer::new();
    let comp = !mask & 0xfff;
    if comp != 0 {
        q.forbid(&notes_of(comp));
    }
    q
}

pub fn scale_script_pub(mask: u16) -> Vec<String> {
    scale_script(mask)
}

fn scale_script(mask: u16) -> Vec<String> {
    let comp = !mask & 0xfff;
    if comp == 0 {
        vec![]
    } else {
        vec![format!("forbid:{}", list_str(&(0..12u8).filter(|n| comp >> n & 1 == 1).collect::<Vec<_>>()))]
    }
}

fn list_str(l: &[u8]) -> String {
    l.iter().map(|n| n.to_string()).collect::<Vec<_>>().join(".")
}

/// ideal note for every half-semitone cell of [0, 10] V (cell h covers (h, h+1) * 125000 units)
pub struct Ideal {
    pub cell: [u8; 242],
}

impl Ideal {
    pub fn new(mask: u16) -> Self {
        let mut cell = [0u8; 242];
        for h in 0..242i64 {
            let u = h * HALF + HALF / 2;
            let n0 = u / SEMI;
            if mask >> (n0 % 12) & 1 == 1 {
                cell[h as usize] = n0 as u8;
            } else {
                let mut best = (i64::MAX, 0u8);
                for n in 0..144i64 {
                    if mask >> (n % 12) & 1 == 1 {
                        let d = (u - n * SEMI).abs();
                        if d < best.0 {
                            best = (d, n as u8);
                        }
                    }
                }
                cell[h as usize] = best.1;
            }
        }
        Ideal { cell }
    }
    /// acceptable notes for input `v` (already clamped to [0, 10]): the ideal answers for v -/+ 10 uV
    #[inline]
    pub fn acceptable(&self, v: f32) -> (u8, u8) {
        let u = v as f64 * 3.0e6;
        let a = (((u - TIE).max(0.0)) / HALF as f64).floor() as usize;
        let b = (((u + TIE).min(30.0e6)) / HALF as f64).floor() as usize;
        (self.cell[a.min(241)], self.cell[b.min(241)])
    }
}

fn clampv(v: f32) -> f32 {
    if v.is_nan() {
        0.0
    } else {
        v.max(0.0).min(10.0)
    }
}

pub type Finding = (&'static str, &'static str, String);

/// C19 record checks that do not depend on history
fn c19_record(v: f32, c: &Conversion, out: &mut Vec<Finding>) {
    let ideal_stair = c.note_num as f32 / 12.0;
    if !((c.stairstep - ideal_stair).abs() <= ulp32(ideal_stair)) {
        out.push(("C19", "stairstep", format!("convert({:?}): stairstep {:?} is not note {} / 12 = {:?}", v, c.stairstep, c.note_num, ideal_stair)));
    }
    if v.is_nan() {
        return;
    }
    let sum = c.stairstep as f64 + c.fraction as f64;
    let mag = v.abs().max(c.stairstep.abs()).max(c.fraction.abs());
    let tol = 2.0 * ulp32(if mag.is_finite() { mag } else { 10.0 }) as f64;
    let cv = clampv(v);
    let ok_in = sum == v as f64 || (sum - v as f64).abs() <= tol;
    let ok_cl = (sum - cv as f64).abs() <= 2.0 * ulp32(cv.abs().max(c.stairstep.abs())) as f64;
    if v >= 0.0 && v <= 10.0 {
        if !ok_in {
            out.push(("C19", "sum", format!("convert({:?}): stairstep {:?} + fraction {:?} = {} does not reproduce the input", v, c.stairstep, c.fraction, sum)));
        }
    } else if !(ok_in || ok_cl) {
        out.push(("C19", "sum-out-of-range", format!("convert({:?}): stairstep {:?} + fraction {:?} = {} reproduces neither the input nor its clamped value {:?}", v, c.stairstep, c.fraction, sum, cv)));
    }
}

#[derive(Clone, Copy, PartialEq, Debug)]
pub enum Kept {
    NoHistory,
    MustKeep,
    EitherWay,
    MustRecompute,
}

/// the reference model: scale mask and the previously reported note
#[derive(Clone, Copy)]
pub struct QModel {
    pub mask: u16,
    pub prev: Option<u8>,
}

impl QModel {
    pub fn new() -> Self {
        QModel { mask: 0xfff, prev: None }
    }
    pub fn allow(&mut self, l: &[u8]) {
        for n in l {
            self.mask |= 1 << (*n).min(11);
        }
    }
    pub fn forbid(&mut self, l: &[u8]) {
        for n in l {
            self.mask &= !(1 << (*n).min(11));
        }
        if self.mask == 0 {
            if let Some(n) = l.last() {
                self.mask = 1 << (*n).min(11);
            }
        }
    }
    /// the window is judged on the input as passed ("the input lies inside that note's ... bucket"): an input of 10.5 V
    /// is outside the window of note 119 although its clamped value is inside (two blind agents read it so; the
    /// clamp-first variant of the white-box review, benign/quant-O2, is therefore NOT accepted)
    pub fn window(&self, v: f32) -> Kept {
        self.window_of(v)
    }
    fn window_of(&self, v: f32) -> Kept {
        let Some(p) = self.prev else { return Kept::NoHistory };
        if self.mask >> (p % 12) & 1 == 0 || v.is_nan() {
            return Kept::MustRecompute;
        }
        let sp = p as f64 / 12.0;
        let lo = sp - ST * 0.1;
        let hi = sp + ST * 1.1;
        let e = 1.0e-6;
        let v = v as f64;
        if v > lo + e && v < hi - e {
            Kept::MustKeep
        } else if v > lo - e && v < hi + e {
            Kept::EitherWay
        } else {
            Kept::MustRecompute
        }
    }
}

fn conv_eq(a: &Conversion, b: &Conversion) -> bool {
    a.note_num == b.note_num && a.stairstep.to_bits() == b.stairstep.to_bits() && (a.fraction.to_bits() == b.fraction.to_bits() || (a.fraction.is_nan() && b.fraction.is_nan()))
}

/// Execute convert(v) on the real quantizer and judge it against the model
/// (C07 allowed note, C09 hysteresis / history-free, C19 record). Returns the window verdict.
pub fn convert_checked(q: &mut Quantizer, m: &mut QModel, v: f32, out: &mut Vec<Finding>) -> (Conversion, Kept) {
    let w = m.window(v);
    let prev = m.prev;
    let c = q.convert(v);
    // C07
    let class = c.note_num % 12;
    if m.mask >> class & 1 == 0 || !q.is_allowed(Note::new(class)) {
        let cl = if Some(c.note_num) == prev { "forbidden-note-kept" } else { "forbidden-note" };
        out.push(("C07", cl, format!("convert({:?}) reports note {} (pitch class {}) while the scale is {:012b}", v, c.note_num, class, m.mask)));
    }
    // C19 (history independent part)
    c19_record(v, &c, out);
    if w == Kept::NoHistory && m.mask == 0xfff && !v.is_nan() {
        let fr = c.fraction as f64;
        if !(fr >= -1.0e-5 - 1.0e-9 && fr < ST + 1.0e-6) {
            out.push(("C19", "chromatic-fraction", format!("convert({:?}) on a fresh chromatic quantizer: fraction {:?} is outside [0, 1) semitone", v, c.fraction)));
        }
    }
    // C09
    let fresh = with_scale(m.mask).convert(v);
    match w {
        Kept::NoHistory | Kept::MustRecompute => {
            if !conv_eq(&c, &fresh) {
                let cl = if w == Kept::NoHistory { "first-conversion-differs" } else if prev.map(|p| m.mask >> (p % 12) & 1 == 0).unwrap_or(false) { "stale-note-after-scale-edit" } else { "history-outside-window" };
                out.push(("C09", cl, format!("convert({:?}) with previous note {:?} and scale {:012b} gives note {} / stairstep {:?} / fraction {:?}; a quantizer without history gives note {} / {:?} / {:?}", v, prev, m.mask, c.note_num, c.stairstep, c.fraction, fresh.note_num, fresh.stairstep, fresh.fraction)));
            }
        }
        Kept::MustKeep => {
            let p = prev.unwrap();
            if c.note_num != p {
                out.push(("C09", "window-not-honoured", format!("convert({:?}) left note {} although the input is inside its widened bucket (scale {:012b}); got {}", v, p, m.mask, c.note_num)));
            } else {
                let fr = c.fraction as f64;
                if !(fr >= -0.1 * ST - 1.0e-6 && fr <= 1.1 * ST + 1.0e-6) {
                    out.push(("C19", "fraction-in-window", format!("convert({:?}) kept note {} but fraction {:?} is outside [-0.1, 1.1] semitones", v, p, c.fraction)));
                }
            }
        }
        Kept::EitherWay => {
            if !(c.note_num == prev.unwrap() || conv_eq(&c, &fresh)) {
                out.push(("C09", "window-edge", format!("convert({:?}) at a window edge gives note {}, neither the previous note {:?} nor the history-free answer {}", v, c.note_num, prev, fresh.note_num)));
            }
        }
    }
    m.prev = Some(c.note_num);
    (c, w)
}

// ------------------------------------------------------------------ machine

#[derive(Clone, Debug, PartialEq)]
pub enum QOp {
    Allow(Vec<u8>),
    Forbid(Vec<u8>),
    Convert(f32),
}

pub struct QuantM {
    pub q: Quantizer,
    pub m: QModel,
    pub edits: std::sync::Arc<Vec<QOp>>,
    pub inputs: std::sync::Arc<Vec<f32>>,
}

impl QuantM {
    pub fn new(edits: Vec<QOp>, inputs: Vec<f32>) -> Self {
        QuantM { q: Quantizer::new(), m: QModel::new(), edits: std::sync::Arc::new(edits), inputs: std::sync::Arc::new(inputs) }
    }
}

impl Machine for QuantM {
    type Op = QOp;
    const NAME: &'static str = "quantizer";
    fn config(&self) -> Value {
        json!({})
    }
    fn ops(&self, out: &mut Vec<QOp>) {
        for v in self.inputs.iter() {
            out.push(QOp::Convert(*v));
        }
        for e in self.edits.iter() {
            out.push(e.clone());
        }
    }
    fn apply(&mut self, op: &QOp, out: &mut StepOut) {
        let mut fnd: Vec<Finding> = Vec::new();
        match op {
            QOp::Allow(l) => {
                self.q.allow(&l.iter().map(|n| Note::from(*n)).collect::<Vec<_>>());
                self.m.allow(l);
                out.count("edits");
            }
            QOp::Forbid(l) => {
                let before = self.m.mask;
                self.q.forbid(&l.iter().map(|n| Note::from(*n)).collect::<Vec<_>>());
                self.m.forbid(l);
                out.count("edits");
                let mut bits = 0u16;
                for n in l {
                    bits |= 1 << (*n).min(11);
                }
                if before & !bits == 0 {
                    out.count("forbid_that_would_empty_the_scale");
                }
                if let Some(p) = self.m.prev {
                    if before >> (p % 12) & 1 == 1 && self.m.mask >> (p % 12) & 1 == 0 {
                        out.count("edits_forbidding_the_cached_note");
                    }
                }
            }
            QOp::Convert(v) => {
                let stale = self.m.prev.map(|p| self.m.mask >> (p % 12) & 1 == 0).unwrap_or(false);
                let (c, w) = convert_checked(&mut self.q, &mut self.m, *v, &mut fnd);
                out.count("conversions");
                if stale {
                    out.count("conversions_with_cached_note_forbidden");
                    if c.note_num >= 12 {
                        out.count("conversions_with_cached_note_forbidden_octave_ge_1");
                    }
                }
                match w {
                    Kept::MustKeep => out.count("conversions_inside_window"),
                    Kept::MustRecompute => out.count("conversions_outside_window"),
                    _ => {}
                }
                out.obs = c.note_num as u64;
            }
        }
        if !matches!(op, QOp::Convert(_)) {
            let mut real = 0u16;
            for n in 0..12u8 {
                if self.q.is_allowed(Note::new(n)) {
                    real |= 1 << n;
                }
            }
            if real != self.m.mask {
                fnd.push(("C07", "scale-edit", format!("after {} the scale is {:012b} (is_allowed), expected {:012b}", Self::op_str(op), real, self.m.mask)));
            }
            if real == 0 {
                fnd.push(("C07", "empty-scale", format!("after {} no pitch class is allowed", Self::op_str(op))));
            }
        }
        for (p, c, d) in fnd {
            out.flag(p, c, d);
        }
    }
    fn key(&self) -> u128 {
        let c = self.q.verif_cached();
        let mut h = Hash128::new();
        h.word(c.note_num as u64);
        h.word(c.stairstep.to_bits() as u64);
        h.word(c.fraction.to_bits() as u64);
        h.word(self.q.verif_allowed() as u64);
        h.word(self.m.mask as u64);
        h.word(self.m.prev.map(|p| p as u64 + 1).unwrap_or(0));
        h.finish()
    }
    fn fork(&self) -> Self {
        QuantM { q: self.q.verif_clone(), m: self.m, edits: self.edits.clone(), inputs: self.inputs.clone() }
    }
    fn op_str(op: &QOp) -> String {
        match op {
            QOp::Allow(l) => format!("allow:{}", list_str(l)),
            QOp::Forbid(l) => format!("forbid:{}", list_str(l)),
            QOp::Convert(v) => format!("convert:{:?}", v),
        }
    }
}

pub fn parse_op(s: &str) -> QOp {
    let (a, b) = s.split_once(':').expect("quantizer op");
    match a {
        "convert" => QOp::Convert(parse_f32(b)),
        "allow" => QOp::Allow(b.split('.').map(|x| x.parse().unwrap()).collect()),
        "forbid" => QOp::Forbid(b.split('.').map(|x| x.parse().unwrap()).collect()),
        _ => panic!("unknown quantizer op {}", s),
    }
}

/// replay: C08's oracle is added on conversions made without history
pub fn replay(_config: &Value, ops: &[String]) -> Vec<String> {
    let mut m = QuantM::new(vec![], vec![]);
    let mut lines = Vec::new();
    let mut step = 0;
    let mut expanded: Vec<(String, u64)> = Vec::new();
    for (o, n) in expand_ops(ops) {
        if o.starts_with('#') {
            continue;
        }
        if let Some(r) = o.strip_prefix("ramp:") {
            let p: Vec<&str> = r.split(':').collect();
            let start = parse_f32(p[0]) as f64;
            let step_uv: f64 = p[1].parse().unwrap();
            let count: usize = p[2].parse().unwrap();
            for i in 0..count {
                let v = ((start + step_uv * 1.0e-6 * i as f64).max(0.0).min(10.0)) as f32;
                expanded.push((format!("convert:{:?}", v), 1));
            }
        } else {
            expanded.push((o, n));
        }
    }
    let total_ops = expanded.len();
    for (oi, (o, n)) in expanded.into_iter().enumerate() {
        let op = parse_op(&o);
        for _ in 0..n {
            step += 1;
            let had_history = m.m.prev.is_some();
            let mut out = StepOut::new();
            let r = std::panic::catch_unwind(std::panic::AssertUnwindSafe(|| m.apply(&op, &mut out)));
            let c = m.q.verif_cached();
            let mut l = format!("#{:<4} {:<34} -> scale={:012b} note={} stairstep={:?} fraction={:?}", step, o, m.q.verif_allowed(), c.note_num, c.stairstep, c.fraction);
            if let Err(e) = &r {
                l.push_str(&format!("  PANIC: {}", panic_msg(e)));
            }
            if let (QOp::Convert(v), false) = (&op, had_history) {
                let id = Ideal::new(m.m.mask);
                let (a, b) = id.acceptable(clampv(*v));
                if c.note_num != a && c.note_num != b {
                    l.push_str(&format!("\n        !! C08 [not-nearest] the nearest allowed note is {}", if a == b { format!("{}", a) } else { format!("{} or {}", a, b) }));
                }
            }
            for f in &out.flags {
                l.push_str(&format!("\n        !! {} [{}] {}", f.prop, f.class, f.detail));
            }
            if total_ops <= 40 || oi < 4 || oi + 6 >= total_ops || !out.flags.is_empty() || l.contains("!!") {
                lines.push(l);
            }
        }
    }
    lines
}

fn viol(prop: &'static str, class: &str, detail: String, ops: Vec<String>) -> Violation {
    Violation { prop, class: class.to_string(), detail, machine: "quantizer", config: json!({}), ops }
}

// ------------------------------------------------------------------ C08 (+ the history-free part of C19)

fn uv(k: u64) -> f32 {
    (k as f64 * 1.0e-6) as f32
}

/// inputs (in microvolts) for the quick lattice: +-12 uV around every half-semitone boundary, plus a stride
fn quick_lattice() -> Vec<u64> {
    let mut v: Vec<u64> = Vec::new();
    for h in 0..=240u64 {
        let b = (h as f64 * 125000.0 / 3.0).round() as i64;
        for d in -12i64..=12 {
            let k = b + d;
            if k >= 0 && k <= 10_000_000 {
                v.push(k as u64);
            }
        }
    }
    let mut k = 0u64;
    while k <= 10_000_000 {
        v.push(k);
        k += 9973;
    }
    v.sort();
    v.dedup();
    v
}

fn c08_scale(mask: u16, inputs: Option<&[u64]>, props_c19: bool, lc: &mut LocalCounts) {
    c08_scale_route(mask, inputs, props_c19, 0, lc)
}

/// the scale `mask` reached through different edit histories (no conversion in between): 0 = forbid(complement) on a
/// fresh quantizer; 1 = forbid everything with the lowest note of the scale last (it survives), then allow the rest;
/// 2 = forbid the complement one note at a time in descending order, then toggle the highest note of the scale off
/// and on; 3 = forbid everything with the highest note of the scale last, allow the whole scale, forbid the complement
pub fn scale_by_route(mask: u16, route: u8) -> (Quantizer, Vec<String>) {
    let notes: Vec<u8> = (0..12u8).filter(|n| mask >> n & 1 == 1).collect();
    let comp: Vec<u8> = (0..12u8).filter(|n| mask >> n & 1 == 0).collect();
    let mut q = Quantizer::new();
    let mut script: Vec<String> = Vec::new();
    let forbid = |q: &mut Quantizer, l: &[u8], script: &mut Vec<String>| {
        if !l.is_empty() {
            q.forbid(&l.iter().map(|n| Note::new(*n)).collect::<Vec<_>>());
            script.push(format!("forbid:{}", list_str(l)));
        }
    };
    let allow = |q: &mut Quantizer, l: &[u8], script: &mut Vec<String>| {
        if !l.is_empty() {
            q.allow(&l.iter().map(|n| Note::new(*n)).collect::<Vec<_>>());
            script.push(format!("allow:{}", list_str(l)));
        }
    };
    match route {
        0 => forbid(&mut q, &comp, &mut script),
        1 => {
            let first = notes[0];
            let mut all: Vec<u8> = (0..12u8).filter(|n| *n != first).collect();
            all.push(first);
            forbid(&mut q, &all, &mut script);
            allow(&mut q, &notes[1..], &mut script);
        }
        2 => {
            for n in comp.iter().rev() {
                forbid(&mut q, &[*n], &mut script);
            }
            if notes.len() > 1 {
                let top = *notes.last().unwrap();
                forbid(&mut q, &[top], &mut script);
                allow(&mut q, &[top], &mut script);
            }
        }
        _ => {
            let last = *notes.last().unwrap();
            let mut all: Vec<u8> = (0..12u8).rev().filter(|n| *n != last).collect();
            all.push(last);
            forbid(&mut q, &all, &mut script);
            allow(&mut q, &notes, &mut script);
            forbid(&mut q, &comp, &mut script);
        }
    }
    (q, script)
}

fn c08_scale_route(mask: u16, inputs: Option<&[u64]>, props_c19: bool, route: u8, lc: &mut LocalCounts) {
    let id = Ideal::new(mask);
    let (template, route_script) = scale_by_route(mask, route);
    let public_mask = (0..12u8).fold(0u16, |acc, n| if template.is_allowed(Note::new(n)) { acc | 1 << n } else { acc });
    if public_mask != mask {
        lc.violation(viol("C07", "scale-edit", format!("edit route {} should give scale {:012b}, got {:012b}", route, mask, public_mask), route_script.clone()));
        return;
    }
    let mut prev_note: Option<u8> = None;
    let mut bad_here = 0u32;
    let mut fnd: Vec<Finding> = Vec::new();
    let n = inputs.map(|i| i.len() as u64).unwrap_or(10_000_001);
    for idx in 0..n {
        let k = inputs.map(|i| i[idx as usize]).unwrap_or(idx);
        let v = uv(k);
        let mut q = template.verif_clone();
        let c = q.convert(v);
        let (a, b) = id.acceptable(v);
        if a != b {
            lc.count("inputs_inside_a_tie_window", 1);
        }
        if c.note_num != a && c.note_num != b {
            bad_here += 1;
            if bad_here <= 2 {
                let oct = c.note_num / 12;
                let class = if oct == 0 && a < 12 { "not-nearest-octave0" } else { "not-nearest" };
                let mut ops = route_script.clone();
                ops.push(format!("convert:{:?}", v));
                lc.violation(viol("C08", class, format!("scale {:012b}, input {:?} V: reported note {}, nearest allowed note is {}", mask, v, c.note_num, if a == b { format!("{}", a) } else { format!("{} or {}", a, b) }), ops));
            } else {
                lc.viol_total += 1;
                *lc.per_class.entry("not-nearest".to_string()).or_insert(0) += 1;
            }
        }
        if let Some(p) = prev_note {
            if c.note_num < p {
                if a != b {
                    lc.count("decreases_inside_tie_windows", 1);
                } else {
                    lc.count("decreases_outside_tie_windows", 1);
                }
            }
        }
        prev_note = Some(c.note_num);
        if props_c19 {
            c19_record(v, &c, &mut fnd);
            if mask == 0xfff {
                let fr = c.fraction as f64;
                lc.maxf("chromatic_min_fraction_negated_uV", -fr * 1.0e6);
                if !(fr >= -10.0e-6 && fr < ST + 10.0e-6) {
                    fnd.push(("C19", "chromatic-fraction", format!("chromatic scale, convert({:?}): fraction {:?} outside [0, 1) semitone (+-10 uV)", v, c.fraction)));
                }
            }
            for (p, cl, d) in fnd.drain(..) {
                let mut ops = scale_script(mask);
                ops.push(format!("convert:{:?}", v));
                lc.violation(viol(p, cl, d, ops));
            }
        }
    }
    if bad_here > 0 {
        lc.count("scales_with_a_wrong_note", 1);
    }
    lc.count("conversions", n);
    lc.count("scales", 1);
}

const OUTSIDE: [f32; 12] = [-1.0, -0.0, -1.0e-7, 10.000001, 10.5, 11.0, 1.0e6, f32::MAX, f32::MIN, f32::INFINITY, f32::NEG_INFINITY, -5.0e-4];

/// inputs outside [0, 10] V: the named ones, powers of two and ten, values around the u32 / i32 / 2^24 limits of a
/// microvolt count, and every f32 exponent with five mantissas, both signs (NaN excluded: no property fixes its note)
pub fn outside_values() -> Vec<f32> {
    let mut v: Vec<f32> = OUTSIDE.to_vec();
    v.extend([10.00001f32, 10.0833, 12.0, 16.777216, 16.78, 100.0, 1.0e3, 2147.4836, 2147.4838, 2147.5, 4294.9673, 4294.9678, 4294.98, 4295.0, 4300.0, 8590.0, 1.0e4, 65536.0, 1.0e5, 1.6777216e7, 4.2949673e9, 1.8446744e19, 3.0e38]);
    let more: Vec<f32> = v.iter().map(|x| -*x).collect();
    v.extend(more);
    for sign in [0u32, 1 << 31] {
        for e in 0..=254u32 {
            for m in [0u32, 1, 0x40_0000, 0x12_3456, 0x7f_ffff] {
                v.push(f32::from_bits(sign | e << 23 | m));
            }
        }
    }
    v.retain(|x| !x.is_nan() && !(*x >= 0.0 && *x <= 10.0) || (*x == 0.0 && x.is_sign_negative()));
    v.sort_by(|a, b| a.total_cmp(b));
    v.dedup_by(|a, b| a.to_bits() == b.to_bits());
    v
}

/// in-range inputs that are not near a whole microvolt: every f32 exponent below 10 V with five mantissas (subnormals
/// included) and a few named ones
pub fn inside_values() -> Vec<f32> {
    let mut v: Vec<f32> = vec![f32::from_bits(1), 1.0e-40, f32::MIN_POSITIVE, 1.0e-30, 1.0e-10, 4.0e-7, 5.0e-7, 1.0e-6, 0.083_333_33, 0.083_333_34, 1.0 / 12.0, 5.0 / 12.0, 7.0 / 12.0, 9.999_999, 10.0];
    for e in 0..=130u32 {
        for m in [0u32, 1, 0x40_0000, 0x12_3456, 0x7f_ffff] {
            v.push(f32::from_bits(e << 23 | m));
        }
    }
    for n in 0..=120u32 {
        v.push(n as f32 / 12.0);
    }
    v.retain(|x| *x >= 0.0 && *x <= 10.0);
    v.sort_by(|a, b| a.total_cmp(b));
    v.dedup_by(|a, b| a.to_bits() == b.to_bits());
    v
}

pub fn c08(ctx: &Ctx) -> Report {
    let mut rep = Report::new();
    rep.rule.push("E2: for every non-empty scale (4095) a fresh real quantizer converts every input on the lattice (thorough: all 10,000,001 microvolt values in [0,10] V; quick: +-12 uV around each of the 241 half-semitone boundaries plus a 9973 uV stride) and the note is compared with the exact nearest-allowed-note rule evaluated in 1/3-uV integers, accepting the answers for v-10uV and v+10uV; non-trivial = conversions on scales with at least one forbidden note".into());
    let lattice = quick_lattice();
    let full = ctx.tier.is_thorough();
    let lat = &lattice;
    let outside = outside_values();
    let outr = &outside;
    let inside = inside_values();
    let inr = &inside;
    par_ranges(ctx, &mut rep, 4095, 4095, |_, lo, hi, lc| {
        for s in lo..hi {
            let mask = (s + 1) as u16;
            c08_scale(mask, if full { None } else { Some(lat) }, false, lc);
            // the same scale reached through other edit histories (lattice inputs)
            for route in 1..4u8 {
                c08_scale_route(mask, Some(lat), false, route, lc);
                lc.count("scales_reached_through_another_edit_history", 1);
            }
            // outside the range: compare with the clamped value
            let id = Ideal::new(mask);
            for &v in outr.iter().chain(inr.iter()) {
                let mut q = with_scale(mask);
                let c = q.convert(v);
                let (a, b) = id.acceptable(clampv(v));
                lc.count("out_of_range_inputs", 1);
                if c.note_num != a && c.note_num != b {
                    let mut ops = scale_script(mask);
                    ops.push(format!("convert:{:?}", v));
                    lc.violation(viol("C08", "out-of-range-input", format!("scale {:012b}, input {:?}: note {}, expected {} (clamped input)", mask, v, c.note_num, a), ops));
                }
            }
        }
    });
    let conv = rep.counters.get("conversions").copied().unwrap_or(0);
    rep.evaluations += conv + 4095 * outside.len() as u64;
    rep.states += 4095;
    rep.transitions += conv;
    rep.traces += conv;
    let per = if full { 10_000_001 } else { lattice.len() as u64 };
    rep.nontrivial = conv - per - 3 * lattice.len() as u64;
    rep.exhaustive = full;
    rep.subruns.push(json!({"engine": "E2-sweep", "scales": 4095, "inputs_per_scale": per, "full_microvolt_grid": full}));
    rep.require_nonzero("inputs_inside_a_tie_window");
    rep.require_nonzero("scales_reached_through_another_edit_history");
    if rep.counters.get("decreases_outside_tie_windows").copied().unwrap_or(0) > 0 && rep.violations_total == 0 {
        rep.machinery("note decreased outside a tie window although every note matched the ideal (oracle inconsistency)".into());
    }
    rep.sample(json!({"scale": "000000000001 (only C)", "input_V": 1.5059, "expected_note": 24}));
    rep.sample(json!({"scale": "100000000000 (only B)", "input_V": 0.0, "expected_note": 11}));
    rep.sample(json!({"script": {"machine": "quantizer", "ops": ["forbid:1.2.3.4.5.6.7.8.9.10.11", "convert:1.5059"]}}));
    rep.assumptions.push("inputs are the f32 values nearest to k microvolts; the oracle uses the exact value of that f32".into());
    rep
}

// ------------------------------------------------------------------ input grids for C07 / C09

pub fn grid150() -> Vec<f32> {
    let mut g: Vec<f32> = Vec::new();
    for base in [0u32, 12, 108] {
        for s in 0..12u32 {
            for off in [0.0f64, 0.5, 0.95] {
                g.push(((base + s) as f64 / 12.0 + off / 12.0) as f32);
            }
        }
    }
    for s in 0..12u32 {
        g.push(((24 + s) as f64 / 12.0 + 1.05 / 12.0) as f32);
    }
    for v in [9.99f32, 9.999999, 10.0, 10.5, -0.2, 5.0413, 3.0, 0.04, 7.96, 119.4 / 12.0, 1.0e-6, 4.9999995] {
        g.push(v);
    }
    g
}

/// second inputs relative to previous note p
fn second_inputs(p: u8) -> Vec<f32> {
    let sp = p as f64 / 12.0;
    let lo = sp - ST * 0.1;
    let hi = sp + ST * 1.1;
    let mut v: Vec<f64> = Vec::new();
    for e in [lo, hi] {
        for d in [-1.0e-3, -3.0e-6, -0.5e-6, 0.5e-6, 3.0e-6, 1.0e-3] {
            v.push(e + d);
        }
    }
    for x in [sp, sp + ST * 0.5, sp + ST * 0.999, sp + ST * 1.05, sp - ST * 0.05, sp - ST * 0.5, sp + ST * 1.5, sp - ST * 1.5, sp + ST * 2.5, sp + 1.0, sp - 1.0, sp + 3.3, 0.0, 10.0, -1.0, 11.0] {
        v.push(x);
    }
    let mut out: Vec<f32> = v.into_iter().map(|x| x as f32).collect();
    out.extend([f32::NAN, f32::INFINITY, f32::NEG_INFINITY, 4295.0, 1.0e6]);
    out
}

// ------------------------------------------------------------------ C07

pub fn c07(ctx: &Ctx) -> Report {
    let mut rep = Report::new();
    rep.rule.push("E2: for ordered scale pairs (m1, m2) (thorough: all 4095^2; quick: m2 = m1 with one or two pitch classes toggled) and every input of a 150-value grid: convert under m1, edit the scale to m2 with real allow/forbid calls, convert the same and a neighbouring input; E1: BFS to fixpoint over allow/forbid/convert histories; every reported note must be allowed by the real is_allowed and by the model mask; non-trivial = second conversions whose cached note had just been forbidden".into());
    let grid = grid150();
    let full = ctx.tier.is_thorough();
    // list of m2 per m1
    let gridr = &grid;
    par_ranges(ctx, &mut rep, 4095, 4095, |_, lo, hi, lc| {
        let mut fnd: Vec<Finding> = Vec::new();
        for s in lo..hi {
            let m1 = (s + 1) as u16;
            let mut m2s: Vec<u16> = Vec::new();
            if full {
                m2s.extend(1..=4095u16);
            } else {
                for a in 0..12 {
                    m2s.push(m1 ^ (1 << a));
                    for b in (a + 1)..12 {
                        m2s.push(m1 ^ (1 << a) ^ (1 << b));
                        for c in (b + 1)..12 {
                            if (a + b + c) % 2 == 0 {
                                m2s.push(m1 ^ (1 << a) ^ (1 << b) ^ (1 << c));
                            }
                        }
                    }
                }
                m2s.retain(|m| *m != 0);
            }
            for &m2 in &m2s {
                let add = m2 & !m1;
                let del = m1 & !m2;
                for (gi, &v) in gridr.iter().enumerate() {
                    let mut q = with_scale(m1);
                    let mut m = QModel { mask: m1, prev: None };
                    // first conversion (only C07 part is relevant here; oracles for C09/C19 are evaluated in their own checks)
                    let c1 = q.convert(v);
                    m.prev = Some(c1.note_num);
                    if m1 >> (c1.note_num % 12) & 1 == 0 {
                        lc.violation(viol("C07", "forbidden-note", format!("scale {:012b}: convert({:?}) reports note {}", m1, v, c1.note_num), { let mut o = scale_script(m1); o.push(format!("convert:{:?}", v)); o }));
                    }
                    if add != 0 {
                        q.allow(&notes_of(add));
                    }
                    if del != 0 {
                        q.forbid(&notes_of(del));
                    }
                    m.mask = m2;
                    let stale = m2 >> (c1.note_num % 12) & 1 == 0;
                    let v2 = gridr[(gi + 1) % gridr.len()];
                    for vv in [v, v2] {
                        let c = q.convert(vv);
                        lc.count("second_conversions", 1);
                        let was_stale = m.prev.map(|p| m2 >> (p % 12) & 1 == 0).unwrap_or(false);
                        if was_stale {
                            lc.count("second_conversions_with_cached_note_forbidden", 1);
                            if m.prev.unwrap() >= 12 {
                                lc.count("second_conversions_with_cached_note_forbidden_octave_ge_1", 1);
                            }
                        }
                        let class = c.note_num % 12;
                        if m2 >> class & 1 == 0 || !q.is_allowed(Note::new(class)) {
                            let cl = if Some(c.note_num) == m.prev { "forbidden-note-kept" } else { "forbidden-note" };
                            fnd.push(("C07", cl, format!("convert({:?}) reports note {} (pitch class {}) while the scale is {:012b} (edited from {:012b})", vv, c.note_num, class, m2, m1)));
                        }
                        m.prev = Some(c.note_num);
                        for (p, cl, d) in fnd.drain(..) {
                            let mut ops = scale_script(m1);
                            ops.push(format!("convert:{:?}", v));
                            if add != 0 {
                                ops.push(format!("allow:{}", list_str(&(0..12u8).filter(|n| add >> n & 1 == 1).collect::<Vec<_>>())));
                            }
                            if del != 0 {
                                ops.push(format!("forbid:{}", list_str(&(0..12u8).filter(|n| del >> n & 1 == 1).collect::<Vec<_>>())));
                            }
                            ops.push(format!("convert:{:?}", v));
                            if vv != v {
                                ops.push(format!("convert:{:?}", vv));
                            }
                            lc.violation(viol(p, cl, d, ops));
                        }
                    }
                    let _ = stale;
                }
                lc.count("scale_pairs", 1);
            }
        }
    });
    let sc = rep.counters.get("second_conversions").copied().unwrap_or(0);
    rep.evaluations += sc / 2 * 3;
    rep.transitions += sc / 2 * 3 + rep.counters.get("scale_pairs").copied().unwrap_or(0) * grid.len() as u64;
    rep.traces += sc / 2 * 3;
    rep.states += rep.counters.get("scale_pairs").copied().unwrap_or(0) * grid.len() as u64;
    rep.subruns.push(json!({"engine": "E2-sweep", "scale_pairs": rep.counters.get("scale_pairs"), "grid": grid.len(), "all_pairs": full}));
    rep.exhaustive = full;

    // E1: histories
    explore(quant_machine(full), &ExploreCfg { max_depth: None, state_cap: 40_000_000, threads: ctx.threads, label: "allow/forbid/convert histories to fixpoint".into() }, &mut rep, &["C07"]);
    enumerate_sequences(&small_quant_machine(), if full { 5 } else { 4 }, ctx, &mut rep, &["C07"], "all edit / convert sequences, no state matching");
    // many scale edits between two conversions of the same input (more than an 8-bit / 16-bit count of edits can hold):
    // the held note is forbidden by the first or by the last of them, the others do not change its pitch class
    {
        let counts: [usize; 10] = [255, 256, 257, 511, 512, 513, 65_535, 65_536, 65_537, 70_000];
        par_ranges(ctx, &mut rep, counts.len() as u64 * 2, counts.len() as u64 * 2, |_, lo, hi, lc| {
            for j in lo..hi {
                let n = counts[(j / 2) as usize];
                let first = j % 2 == 0;
                let mut m = QuantM::new(vec![], vec![]);
                let mut script: Vec<QOp> = vec![QOp::Convert(1.125)];
                if first {
                    script.push(QOp::Forbid(vec![1]));
                }
                for i in 0..(n - 1) {
                    script.push(if i % 2 == 0 { QOp::Forbid(vec![5]) } else { QOp::Allow(vec![5]) });
                }
                if !first {
                    script.push(QOp::Forbid(vec![1]));
                }
                script.extend([QOp::Convert(1.125), QOp::Allow(vec![1]), QOp::Convert(1.125)]);
                for (k, op) in script.iter().enumerate() {
                    let mut out = StepOut::new();
                    let r = std::panic::catch_unwind(std::panic::AssertUnwindSafe(|| m.apply(op, &mut out)));
                    let ops = || -> Vec<String> {
                        let mut v = vec!["convert:1.125".to_string()];
                        if first {
                            v.push("forbid:1".into());
                        }
                        v.push(format!("# then forbid:5 / allow:5 in turn, {} edits", n - 1));
                        if !first {
                            v.push("forbid:1".into());
                        }
                        v.push("convert:1.125".into());
                        v
                    };
                    if let Err(e) = r {
                        lc.violation(viol("C07", "panic", format!("the real code panicked at operation {} of a script with {} scale edits between two conversions: {}", k + 1, n, panic_msg(&e)), ops()));
                        break;
                    }
                    let mut stop = false;
                    for f in out.flags {
                        if f.prop == "C07" {
                            lc.violation(viol("C07", &format!("{}-after-many-edits", f.class), format!("{} ({} scale edits since the previous conversion)", f.detail, n), ops()));
                            stop = true;
                        }
                    }
                    if stop {
                        break;
                    }
                }
                lc.count("conversions_after_many_edits", 1);
            }
        });
        rep.require_nonzero("conversions_after_many_edits");
    }
    if full {
        key_selfcheck(quant_machine(false), 200_000, &mut rep, "quantizer history machine");
    }
    rep.nontrivial = rep.counters.get("second_conversions_with_cached_note_forbidden").copied().unwrap_or(0) + rep.counters.get("conversions_with_cached_note_forbidden").copied().unwrap_or(0);
    rep.require_nonzero("second_conversions_with_cached_note_forbidden");
    rep.require_nonzero("second_conversions_with_cached_note_forbidden_octave_ge_1");
    rep.require_nonzero("conversions_with_cached_note_forbidden_octave_ge_1");
    rep.require_nonzero("forbid_that_would_empty_the_scale");
    rep.sample(json!({"script": {"machine": "quantizer", "ops": ["convert:1.125", "forbid:1", "convert:1.125"]}, "meaning": "the cached note 13 (C sharp, octave 1) is forbidden between two conversions of the same input"}));
    rep
}

/// the history machine shared by C07 / C09 / C19
pub fn quant_machine(thorough: bool) -> QuantM {
    let mut edits: Vec<QOp> = Vec::new();
    let toggles: &[u8] = if thorough { &[0, 1, 4, 7, 11] } else { &[0, 1, 11] };
    for &n in toggles {
        edits.push(QOp::Forbid(vec![n]));
        edits.push(QOp::Allow(vec![n]));
    }
    // list edits, including ones that would empty the scale (the last element must survive)
    edits.push(QOp::Forbid((0..12).collect()));
    edits.push(QOp::Forbid((0..12).rev().collect()));
    edits.push(QOp::Forbid(vec![5, 6, 7, 8, 9, 10, 11, 0, 1, 2, 3, 4]));
    edits.push(QOp::Forbid(vec![0, 2, 4, 5, 7, 9, 11]));
    edits.push(QOp::Forbid(vec![1, 3, 6, 8, 10]));
    edits.push(QOp::Forbid(vec![200, 3]));
    edits.push(QOp::Forbid(vec![]));
    edits.push(QOp::Allow(vec![]));
    edits.push(QOp::Forbid(vec![1, 1]));
    edits.push(QOp::Forbid(vec![200, 11]));
    edits.push(QOp::Forbid(vec![0, 1, 2, 3, 4, 5, 6, 7, 8, 9, 10, 11, 5, 7]));
    edits.push(QOp::Forbid(vec![11, 10, 9, 8, 7, 6, 5, 4, 3, 2, 1, 0, 0, 0, 0, 0, 9]));
    edits.push(QOp::Allow(vec![4, 4, 16, 4]));
    edits.push(QOp::Allow((0..12).collect()));
    edits.push(QOp::Allow(vec![2, 9]));
    let mut inputs: Vec<f32> = Vec::new();
    // octave 0, octave 1, top octave: semitone starts, centres, just below the next note, window edges
    for base in [0.0f64, 1.0, 9.0] {
        for s in [0.0f64, 1.0, 4.0, 11.0] {
            for off in [0.0, 0.5, 0.95, 1.05, -0.05] {
                let v = base + (s + off) / 12.0;
                if v >= 0.0 {
                    inputs.push(v as f32);
                }
            }
        }
    }
    inputs.extend_from_slice(&[10.0, 10.5, -0.2, 5.0, f32::NAN, f32::INFINITY, f32::NEG_INFINITY, 4295.0]);
    if !thorough {
        inputs.retain(|v| v.is_nan() || *v < 2.0 || *v > 9.9);
    }
    QuantM::new(edits, inputs)
}

// ------------------------------------------------------------------ C09 / C19

fn c09_c19(ctx: &Ctx, props: &[&'static str]) -> Report {
    let mut rep = Report::new();
    let full = ctx.tier.is_thorough();
    // scales
    let mut scales: Vec<u16> = Vec::new();
    if full {
        scales.extend(1..=4095u16);
    } else {
        for a in 0..12 {
            scales.push(1 << a);
            for b in (a + 1)..12 {
                scales.push(1 << a | 1 << b);
            }
        }
        scales.push(0xfff);
        scales.push(0b1010_1011_0101); // major
        scales.push(0b0101_1010_1101); // minor
        for i in 0..200u32 {
            scales.push((((i as u64 + 7) * 2654435761u64 >> 7) % 4095 + 1) as u16);
        }
        for a in 0..12 {
            scales.push(0xfff & !(1 << a)); // exactly one note forbidden
            scales.push(0xfff & !(1 << a) & !(1 << ((a + 5) % 12)));
            scales.push(1 << a | 1 << ((a + 4) % 12) | 1 << ((a + 7) % 12)); // triads
        }
        scales.sort();
        scales.dedup();
    }
    let grid = grid150();
    let gridr = &grid;
    let scr = &scales;
    let propsv: Vec<&'static str> = props.to_vec();
    let pr = &propsv;
    par_ranges(ctx, &mut rep, scales.len() as u64, scales.len() as u64, |_, lo, hi, lc| {
        let mut fnd: Vec<Finding> = Vec::new();
        for si in lo..hi {
            let mask = scr[si as usize];
            for &v1 in gridr.iter() {
                // previous conversion
                let mut q0 = with_scale(mask);
                let mut m0 = QModel { mask, prev: None };
                let (c1, _) = convert_checked(&mut q0, &mut m0, v1, &mut fnd);
                flush(&mut fnd, pr, lc, || { let mut o = scale_script(mask); o.push(format!("convert:{:?}", v1)); o });
                let p = c1.note_num;
                // optional scale edit in between: none / forbid p's class / forbid another class / allow everything
                for edit in 0..4u8 {
                    let other = (p % 12 + 5) % 12;
                    for &v2 in second_inputs(p).iter() {
                        let mut q = q0.verif_clone();
                        let mut m = m0;
                        let mut ops = scale_script(mask);
                        ops.push(format!("convert:{:?}", v1));
                        match edit {
                            0 => {}
                            1 => {
                                q.forbid(&[Note::new(p % 12)]);
                                m.forbid(&[p % 12]);
                                ops.push(format!("forbid:{}", p % 12));
                            }
                            2 => {
                                q.forbid(&[Note::new(other)]);
                                m.forbid(&[other]);
                                ops.push(format!("forbid:{}", other));
                            }
                            _ => {
                                q.allow(&notes_of(0xfff));
                                m.allow(&(0..12).collect::<Vec<u8>>());
                                ops.push("allow:0.1.2.3.4.5.6.7.8.9.10.11".to_string());
                            }
                        }
                        let (c2, w) = convert_checked(&mut q, &mut m, v2, &mut fnd);
                        lc.count("second_conversions", 1);
                        match w {
                            Kept::MustKeep => {
                                lc.count("second_conversions_inside_window", 1);
                                if p >= 12 {
                                    lc.count("second_conversions_inside_window_octave_ge_1", 1);
                                }
                                // would a history-free quantizer have answered differently? then the window mattered
                                if with_scale(m.mask).convert(v2).note_num != c2.note_num {
                                    lc.count("window_changed_the_answer", 1);
                                }
                            }
                            Kept::MustRecompute => lc.count("second_conversions_outside_window", 1),
                            Kept::EitherWay => lc.count("second_conversions_at_window_edge", 1),
                            Kept::NoHistory => {}
                        }
                        ops.push(format!("convert:{:?}", v2));
                        flush(&mut fnd, pr, lc, || ops.clone());
                    }
                }
            }
            // ramps: non-decreasing input => non-decreasing notes
            for step_uv in [1000.0f64, 7300.0, 20000.0, 83333.3333, 500000.0] {
                if !full && step_uv < 7000.0 && mask.count_ones() > 2 && mask != 0xfff {
                    continue;
                }
                let mut q = with_scale(mask);
                let mut m = QModel { mask, prev: None };
                let mut prev: Option<(u8, f32)> = None;
                let mut x = 0.0f64;
                while x <= 10.0e6 {
                    let v = (x * 1.0e-6) as f32;
                    let (c, _) = convert_checked(&mut q, &mut m, v, &mut fnd);
                    lc.count("ramp_conversions", 1);
                    if !fnd.is_empty() {
                        // report with the two-step history that matters: previous input, this input
                        let pv = prev;
                        flush(&mut fnd, pr, lc, || { let mut o = scale_script(mask); if let Some((_, pvv)) = pv { o.push(format!("convert:{:?}", pvv)); } o.push(format!("convert:{:?}", v)); o });
                    }
                    if let Some((pn, pv)) = prev {
                        if c.note_num < pn {
                            if pr.contains(&"C09") {
                                let mut o = scale_script(mask);
                                o.push(format!("convert:{:?}", pv));
                                o.push(format!("convert:{:?}", v));
                                lc.violation(viol("C09", "ramp-not-monotone", format!("scale {:012b}: input rose from {:?} to {:?} (ramp step {} uV) but the note fell from {} to {}", mask, pv, v, step_uv, pn, c.note_num), o));
                            }
                        }
                    }
                    prev = Some((c.note_num, v));
                    x += step_uv;
                }
            }
            lc.count("scales", 1);
        }
    });
    // micro-ramps: the input creeping in steps of a few microvolts across bucket boundaries, window edges and
    // midpoints (every conversion judged by the window / history-free rule)
    {
        let scales: Vec<u16> = vec![0xfff, 0x001, 0b1010_1011_0101, 0x091, 0x800, 0x421];
        let mut jobs: Vec<(u16, f64, f64, f64)> = Vec::new(); // scale, start, end, step (volts)
        for &m in &scales {
            for (oct, semis) in [(0.0f64, 0.0f64), (0.0, 4.0), (2.0, 0.0), (2.0, 6.0), (9.0, 11.0)] {
                let base = oct + semis / 12.0;
                for step in [5.0e-6f64, 10.0e-6, 15.0e-6, 40.0e-6] {
                    jobs.push((m, base - 0.02, base + 0.115, step));
                    jobs.push((m, base + 0.115, base - 0.02, -step));
                }
            }
        }
        let jr = &jobs;
        par_ranges(ctx, &mut rep, jobs.len() as u64, jobs.len() as u64, |_, lo, hi, lc| {
            let mut fnd: Vec<Finding> = Vec::new();
            for j in lo..hi {
                let (mask, a, b, step) = jr[j as usize];
                let mut q = with_scale(mask);
                let mut m = QModel { mask, prev: None };
                let n = ((b - a) / step).abs() as usize;
                let mut first_v = 0.0f32;
                for i in 0..=n {
                    let v = ((a + step * i as f64).max(0.0).min(10.0)) as f32;
                    if i == 0 {
                        first_v = v;
                    }
                    convert_checked(&mut q, &mut m, v, &mut fnd);
                    lc.count("micro_ramp_conversions", 1);
                    if !fnd.is_empty() {
                        let step_uv = step * 1.0e6;
                        flush(&mut fnd, pr, lc, || { let mut o = scale_script(mask); o.push(format!("# then convert {:?}, {:?} + {} uV, ... ({} conversions in steps of {} uV)", first_v, first_v, step_uv, i + 1, step_uv)); o.push(format!("ramp:{:?}:{}:{}", first_v, step_uv, i + 1)); o });
                        break;
                    }
                }
            }
        });
    }
    // noise around chromatic boundaries: +-0.05 semitone alternation changes the note at most once
    par_ranges(ctx, &mut rep, 120, 120, |_, lo, hi, lc| {
        let mut fnd: Vec<Finding> = Vec::new();
        for b in lo..hi {
            let boundary = (b + 1) as f64 / 12.0;
            for start_low in [true, false] {
                for amp in [0.05f64, 0.09, 0.01] {
                    let mut q = Quantizer::new();
                    let mut m = QModel::new();
                    let mut changes = 0;
                    let mut last: Option<u8> = None;
                    let mut ops: Vec<String> = Vec::new();
                    for i in 0..40 {
                        let lowside = (i % 2 == 0) == start_low;
                        let v = (boundary + if lowside { -amp * ST } else { amp * ST }) as f32;
                        ops.push(format!("convert:{:?}", v));
                        let (c, _) = convert_checked(&mut q, &mut m, v, &mut fnd);
                        lc.count("noise_conversions", 1);
                        if let Some(l) = last {
                            if l != c.note_num {
                                changes += 1;
                            }
                        }
                        last = Some(c.note_num);
                        let o2 = ops.clone();
                        flush(&mut fnd, pr, lc, || o2.clone());
                    }
                    if changes > 1 && pr.contains(&"C09") {
                        lc.violation(viol("C09", "noise-chatter", format!("input alternating +-{} semitone around {} V changed the note {} times", amp, boundary, changes), ops));
                    }
                }
            }
        }
    });
    let sc = rep.counters.get("second_conversions").copied().unwrap_or(0) + rep.counters.get("ramp_conversions").copied().unwrap_or(0) + rep.counters.get("noise_conversions").copied().unwrap_or(0);
    rep.evaluations += sc;
    rep.transitions += sc;
    rep.traces += sc;
    rep.states += rep.counters.get("scales").copied().unwrap_or(0) * grid.len() as u64;
    rep.subruns.push(json!({"engine": "E2-sweep", "scales": scales.len(), "first_inputs": grid.len(), "second_inputs_per_previous_note": 28, "edits_between": 4, "all_scales": full}));
    rep.exhaustive = false;
    // long runs: the same short cycle of conversions and edits repeated more often than a 16-bit counter holds
    {
        let cycles: Vec<Vec<QOp>> = vec![
            vec![QOp::Convert(1.125), QOp::Convert(1.125), QOp::Convert(1.2)],
            vec![QOp::Convert(2.3541667), QOp::Forbid(vec![4]), QOp::Convert(2.3541667), QOp::Allow(vec![4])],
            vec![QOp::Forbid((0..12).collect()), QOp::Convert(0.4), QOp::Allow(vec![1, 6]), QOp::Convert(9.97), QOp::Convert(9.96)],
            vec![QOp::Convert(-1.0), QOp::Convert(0.05), QOp::Convert(-1.0), QOp::Convert(10.5)],
            // a note held all the time: one input, and inputs wandering inside one widened bucket
            vec![QOp::Convert(3.3)],
            vec![QOp::Convert(5.04), QOp::Convert(5.05), QOp::Convert(5.06), QOp::Convert(4.995)],
            vec![QOp::Convert(f32::NAN)],
        ];
        let cr = &cycles;
        let reps: u64 = 66_000;
        par_ranges(ctx, &mut rep, cycles.len() as u64, cycles.len() as u64, |_, lo, hi, lc| {
            for j in lo..hi {
                let mut m = QuantM::new(vec![], vec![]);
                let cyc = &cr[j as usize];
                'run: for n in 0..reps {
                    for op in cyc {
                        let mut out = StepOut::new();
                        m.apply(op, &mut out);
                        lc.count("long_run_operations", 1);
                        for f in out.flags {
                            if pr.contains(&f.prop) {
                                let mut ops: Vec<String> = Vec::new();
                                for _ in 0..=n {
                                    ops.extend(cyc.iter().map(QuantM::op_str));
                                }
                                lc.violation(viol(f.prop, &format!("{}-in-a-long-run", f.class), format!("{} (cycle {} of a repeated sequence)", f.detail, n + 1), ops));
                                break 'run;
                            }
                        }
                    }
                }
            }
        });
    }
    // E1 histories
    explore(quant_machine(full), &ExploreCfg { max_depth: None, state_cap: 40_000_000, threads: ctx.threads, label: "allow/forbid/convert histories to fixpoint".into() }, &mut rep, props);
    enumerate_sequences(&small_quant_machine(), if full { 5 } else { 4 }, ctx, &mut rep, props, "all edit / convert sequences, no state matching");
    rep
}

/// a smaller alphabet for plain sequence enumeration (no state matching)
pub fn small_quant_machine() -> QuantM {
    let edits = vec![QOp::Forbid(vec![1]), QOp::Allow(vec![1]), QOp::Forbid(vec![0]), QOp::Allow(vec![0]), QOp::Forbid(vec![11]), QOp::Forbid((0..12).collect()), QOp::Forbid(vec![7, 9]), QOp::Allow(vec![7])];
    let mut inputs: Vec<f32> = Vec::new();
    for base in [0.0f64, 1.0, 9.0] {
        for s in [0.0f64, 0.95, 1.05, 1.5, -0.05, 7.0, 11.0, 11.95] {
            let v = base + s / 12.0;
            if v >= 0.0 {
                inputs.push(v as f32);
            }
        }
    }
    inputs.push(10.0);
    QuantM::new(edits, inputs)
}

fn flush(fnd: &mut Vec<Finding>, props: &[&'static str], lc: &mut LocalCounts, ops: impl Fn() -> Vec<String>) {
    for (p, c, d) in fnd.drain(..) {
        if props.contains(&p) {
            let already = lc.per_class.get(c).copied().unwrap_or(0);
            let o = if already < PER_CLASS_CAP { ops() } else { Vec::new() };
            lc.violation(viol(p, c, d, o));
        }
    }
}

pub fn c09(ctx: &Ctx) -> Report {
    let mut rep = c09_c19(ctx, &["C09"]);
    rep.rule.push("E2: per scale (thorough: all 4095; quick: all 1- and 2-note scales, chromatic, major, minor, 200 spread masks), every previous conversion from a 150-input grid, an optional scale edit (none / forbid the previous note / forbid another / allow all), and 28 second inputs placed around the previous note's widened bucket: inside the window the note must be kept, outside (or after the note was forbidden) the whole record must equal that of a fresh real quantizer; plus ramps and noise sequences; E1: BFS to fixpoint over edit/convert histories; non-trivial = second conversions strictly inside the window for which a history-free quantizer answers differently + those outside".into());
    rep.nontrivial = rep.counters.get("window_changed_the_answer").copied().unwrap_or(0) + rep.counters.get("second_conversions_outside_window").copied().unwrap_or(0);
    rep.require_nonzero("window_changed_the_answer");
    rep.require_nonzero("second_conversions_inside_window_octave_ge_1");
    rep.require_nonzero("second_conversions_outside_window");
    rep.sample(json!({"script": {"machine": "quantizer", "ops": ["forbid:11", "convert:1.0", "convert:0.995"]}, "meaning": "0.995 V is inside note 12's bucket widened by 0.1 semitone: the note must stay 12"}));
    rep
}

pub fn c19(ctx: &Ctx) -> Report {
    let mut rep = c09_c19(ctx, &["C19"]);
    // history-free part on the full microvolt grid for the chromatic scale (both tiers) and a few sparse scales
    let scales: Vec<u16> = if ctx.tier.is_thorough() { vec![0xfff, 0x001, 0x800, 0b1010_1011_0101, 0x421] } else { vec![0xfff] };
    let sr = &scales;
    // split the chromatic sweep into chunks for parallelism
    par_ranges(ctx, &mut rep, scales.len() as u64 * 64, scales.len() as u64 * 64, |_, lo, hi, lc| {
        for i in lo..hi {
            let mask = sr[(i / 64) as usize];
            let part = i % 64;
            let a = 10_000_001u64 * part / 64;
            let b = 10_000_001u64 * (part + 1) / 64;
            let inputs: Vec<u64> = (a..b).collect();
            c08_scale(mask, Some(&inputs), true, lc);
        }
    });
    // out of range inputs and in-range inputs off the microvolt lattice (subnormals, n/12, every exponent), all scales
    let outside = outside_values();
    let outr = &outside;
    let inside = inside_values();
    let inr = &inside;
    par_ranges(ctx, &mut rep, 4095, 64, |_, lo, hi, lc| {
        let mut fnd: Vec<Finding> = Vec::new();
        for s in lo..hi {
            let mask = (s + 1) as u16;
            for v in outr.iter().chain(inr.iter()).chain([f32::NAN].iter()) {
                let mut q = with_scale(mask);
                let c = q.convert(*v);
                c19_record(*v, &c, &mut fnd);
                if mask == 0xfff && !v.is_nan() {
                    let fr = c.fraction as f64;
                    if !(fr >= -1.0e-5 - 1.0e-9 && fr < ST + 1.0e-6) {
                        fnd.push(("C19", "chromatic-fraction", format!("convert({:?}) on a fresh chromatic quantizer: fraction {:?} is outside [0, 1) semitone", v, c.fraction)));
                    }
                }
                lc.count("out_of_range_inputs", 1);
                for (p, cl, d) in fnd.drain(..) {
                    let mut ops = scale_script(mask);
                    ops.push(format!("convert:{:?}", v));
                    lc.violation(viol(p, cl, d, ops));
                }
            }
        }
    });
    let conv = rep.counters.get("conversions").copied().unwrap_or(0);
    rep.evaluations += conv;
    rep.transitions += conv;
    rep.traces += conv;
    rep.rule.push("E2: the record checks (stairstep = note/12, stairstep + fraction reproduces the input within 2 ulps, fraction ranges) are evaluated on all 10,000,001 microvolt inputs of the chromatic scale without history, on out-of-range inputs for all 4095 scales, and on every conversion of the C09 exploration (with history, scale edits); non-trivial = conversions with a non-zero fraction".into());
    rep.nontrivial = conv + rep.counters.get("second_conversions").copied().unwrap_or(0);
    rep.require_nonzero("second_conversions_inside_window");
    rep.sample(json!({"script": {"machine": "quantizer", "ops": ["convert:0.999996"]}, "meaning": "4 uV below 1 V: note 12 with fraction -4 uV is accepted (the +-10 uV tie reading of C08)"}));
    rep.assumptions.push("'two f32 ulps' is taken at the magnitude of the largest of |input|, |stairstep|, |fraction| (the subtraction that forms the fraction rounds at that magnitude)".into());
    rep.assumptions.push("chromatic fraction interval [0, 1) semitone is widened by the 10 uV tie tolerance C08 grants to the note decision".into());
    rep
}
