//! Engine E3: stateright as an independent second explorer over the same
//! machine objects. It decides nothing; it cross-checks E1's state count and
//! depth (thorough tier). Disagreement is a machinery error.

use crate::common::*;
use crate::explore::*;
use serde_json::json;
use stateright::{Checker, Model, Property};
use std::sync::Arc;

pub struct SrState<M: Machine> {
    key: u128,
    flagged: bool,
    m: Arc<M>,
}

impl<M: Machine> Clone for SrState<M> {
    fn clone(&self) -> Self {
        SrState { key: self.key, flagged: self.flagged, m: self.m.clone() }
    }
}
impl<M: Machine> std::fmt::Debug for SrState<M> {
    fn fmt(&self, f: &mut std::fmt::Formatter<'_>) -> std::fmt::Result {
        write!(f, "state#{:032x}", self.key)
    }
}
impl<M: Machine> std::hash::Hash for SrState<M> {
    fn hash<H: std::hash::Hasher>(&self, h: &mut H) {
        self.key.hash(h)
    }
}
impl<M: Machine> PartialEq for SrState<M> {
    fn eq(&self, o: &Self) -> bool {
        self.key == o.key
    }
}
impl<M: Machine> Eq for SrState<M> {}

pub struct SrModel<M: Machine> {
    init: Arc<M>,
    props: Vec<&'static str>,
}

impl<M: Machine + 'static> Model for SrModel<M>
where
    M::Op: std::fmt::Debug + PartialEq + 'static,
{
    type State = SrState<M>;
    type Action = M::Op;
    fn init_states(&self) -> Vec<Self::State> {
        vec![SrState { key: self.init.key(), flagged: false, m: self.init.clone() }]
    }
    fn actions(&self, s: &Self::State, out: &mut Vec<Self::Action>) {
        s.m.ops(out);
    }
    fn next_state(&self, s: &Self::State, a: Self::Action) -> Option<Self::State> {
        let mut n = s.m.fork();
        let mut out = StepOut::new();
        let r = std::panic::catch_unwind(std::panic::AssertUnwindSafe(|| n.apply(&a, &mut out)));
        if r.is_err() {
            return None;
        }
        let flagged = out.flags.iter().any(|f| self.props.contains(&f.prop));
        Some(SrState { key: n.key(), flagged, m: Arc::new(n) })
    }
    fn properties(&self) -> Vec<Property<Self>> {
        vec![Property::<Self>::always("oracle silent", |_, s| !s.flagged)]
    }
}

pub fn cross_check<M: Machine + 'static>(ctx: &Ctx, rep: &mut Report, mk: impl Fn() -> M, label: &str, props: &[&'static str])
where
    M::Op: std::fmt::Debug + PartialEq + 'static,
{
    // E1 on a scratch report
    let mut scratch = Report::new();
    let r = explore(mk(), &ExploreCfg { max_depth: None, state_cap: 60_000_000, threads: ctx.threads, label: format!("{} (E1 side of the cross-check)", label) }, &mut scratch, props);
    let e1_viol = scratch.violations_total;
    let model = SrModel { init: Arc::new(mk()), props: props.to_vec() };
    let checker = model.checker().threads(ctx.threads).spawn_bfs().join();
    let uniq = checker.unique_state_count() as u64;
    let depth = checker.max_depth() as u32;
    let disc = !checker.discoveries().is_empty();
    rep.subruns.push(json!({
        "engine": "E3-stateright",
        "label": label,
        "stateright_unique_states": uniq,
        "stateright_max_depth": depth,
        "stateright_discovery": disc,
        "e1_states": r.states,
        "e1_depth": r.depth,
        "e1_violations": e1_viol,
    }));
    if e1_viol == 0 {
        // unique-state counts must agree. Depths are reported but only bounded: stateright's parallel BFS is not
        // level-synchronous, so its max_depth may exceed the length of the longest shortest path, never undercut it
        if uniq != r.states || disc || depth + 1 < r.depth {
            rep.machinery(format!("{}: stateright disagrees with E1: states {} vs {}, depth {} vs {}, discovery {}", label, uniq, r.states, depth, r.depth, disc));
        } else {
            rep.count("stateright_cross_checks_agreeing", 1);
        }
    } else if !disc {
        rep.machinery(format!("{}: E1 reports {} violations but stateright found none", label, e1_viol));
    }
}

pub fn cross_check_midi(ctx: &Ctx, rep: &mut Report, a: crate::p_midi::Alphabet, props: &[&'static str]) {
    cross_check(ctx, rep, || crate::p_midi::MidiM::new(0, a.clone()), "midi message machine", props);
}
