//! Glide processor: C13 (no overshoot / ringing, convergence), C14 (time setting)

use crate::common::*;
use crate::explore::*;
use serde_json::{json, Value};
use synth_utils::glide_processor::GlideProcessor;

pub type Finding = (&'static str, &'static str, String);

#[derive(Clone, Copy, Debug, PartialEq)]
pub enum GOp {
    Process(f32),
    /// process(previous output): an input that lands bit-exactly on the output in flight
    Feedback,
    Hold(f32, u32),
    SetTime(f32),
}

/// times that may be in effect under the 0.05 s dead band of set_time
#[derive(Clone, Debug)]
pub struct TimeSet(pub Vec<f32>);

impl TimeSet {
    pub fn new() -> Self {
        TimeSet(vec![0.0])
    }
    pub fn request(&mut self, r: f32) {
        let mut n: Vec<f32> = vec![r];
        for e in &self.0 {
            if (r - *e).abs() <= 0.05 * (1.0 + 1.0e-4) && !n.contains(e) {
                n.push(*e);
            }
        }
        self.0 = n;
    }
    pub fn max(&self) -> f32 {
        self.0.iter().cloned().fold(0.0, f32::max)
    }
    pub fn min(&self) -> f32 {
        self.0.iter().cloned().fold(f32::INFINITY, f32::min)
    }
}

/// 1 - pole of a one-pole lag with time setting t at rate fs (time constant t/2pi, clamped to [fastest, 10 s])
fn one_minus_p(t: f32, fs: f32) -> f64 {
    let t = (t as f64).min(10.0);
    if t <= 0.0 {
        return 1.0;
    }
    (2.0 * std::f64::consts::PI / (t * fs as f64)).min(1.0)
}

pub struct GlideM {
    pub g: GlideProcessor,
    pub fs: f32,
    pub times: TimeSet,
    pub lo: f32,
    pub hi: f32,
    pub mag: f32,
    pub prev_x: Option<f32>,
    pub prev_y: f32,
    pub held: u32,
    /// error bound inherited from slower settings that were in effect earlier (decays with the current pole)
    pub carry: f64,
    pub inputs: std::sync::Arc<Vec<f32>>,
    pub tmenu: std::sync::Arc<Vec<f32>>,
}

impl GlideM {
    pub fn new(fs: f32, inputs: Vec<f32>, tmenu: Vec<f32>) -> Self {
        GlideM { g: GlideProcessor::new(fs), fs, times: TimeSet::new(), lo: 0.0, hi: 0.0, mag: 0.0, prev_x: None, prev_y: 0.0, held: 0, carry: 0.0, inputs: std::sync::Arc::new(inputs), tmenu: std::sync::Arc::new(tmenu) }
    }
    /// f32 resolution of a one-pole filter: about five roundings of half an ulp per sample plus the rounding of
    /// the coefficients (DC gain off by 2^-24/(1-p)), all amplified by 1/(1-p): 4 ulp(M)/(1-p) bounds them
    pub fn allowance(&self) -> f64 {
        4.0 * ulp32(self.mag.max(f32::MIN_POSITIVE)) as f64 / one_minus_p(self.times.max(), self.fs) + self.carry
    }
    fn sample(&mut self, x: f32, fnd: &mut Vec<Finding>, out: &mut StepOut) {
        let y = self.g.process(x);
        // what was inherited from an earlier, slower setting dies away with the pole of the current one
        self.carry *= 1.0 - one_minus_p(self.times.max(), self.fs);
        if self.carry < 1.0e-300 {
            self.carry = 0.0;
        }
        self.lo = self.lo.min(x);
        self.hi = self.hi.max(x);
        self.mag = self.mag.max(x.abs()).max(if y.is_finite() { y.abs() } else { 0.0 });
        let a = self.allowance();
        let u2 = 2.0 * ulp32(self.mag.max(f32::MIN_POSITIVE)) as f64;
        out.count("samples");
        if !y.is_finite() {
            fnd.push(("C13", "not-finite", format!("process({:?}) returned {:?}", x, y)));
        } else if (y as f64) < self.lo as f64 - a || (y as f64) > self.hi as f64 + a {
            fnd.push(("C13", "overshoot", format!("output {:?} outside the range [{:?}, {:?}] spanned by 0 and the inputs so far (allowance {:e})", y, self.lo, self.hi, a)));
        }
        if self.prev_x == Some(x) {
            self.held += 1;
        } else {
            // first sample of a new input: if the output had settled on the previous (held) input, it now moves
            // from that level toward the new input and cannot pass it
            if let Some(px) = self.prev_x {
                if self.held >= 2 && (self.prev_y as f64 - px as f64).abs() <= a && y.is_finite() {
                    let lo = (px.min(x)) as f64 - a;
                    let hi = (px.max(x)) as f64 + a;
                    out.count("steps_from_a_settled_level");
                    if (y as f64) < lo || (y as f64) > hi {
                        fnd.push(("C13", "overshoots-step-from-settled-level", format!("output had settled on {:?}; on the first sample of the new input {:?} it is {:?}, outside [{:?}, {:?}]", px, x, y, px.min(x), px.max(x))));
                    }
                }
            }
            self.held = 1;
        }
        if self.held >= 2 && y.is_finite() {
            // input held: from the second held sample on the output approaches it monotonically and never crosses it
            let d0 = self.prev_y as f64 - x as f64;
            let d1 = y as f64 - x as f64;
            out.count("held_samples_checked");
            if d1.abs() > d0.abs() + u2 {
                fnd.push(("C13", "moves-away-from-held-input", format!("input held at {:?}: output went from {:?} to {:?}, away from it", x, self.prev_y, y)));
            } else if d0 * d1 < 0.0 && d1.abs() > a && d0.abs() > a {
                fnd.push(("C13", "oscillates-around-held-input", format!("input held at {:?}: output crossed it, from {:?} to {:?} (allowance {:e})", x, self.prev_y, y, a)));
            }
            if d0 != 0.0 {
                out.count("held_samples_with_output_still_moving");
            }
        }
        self.prev_x = Some(x);
        self.prev_y = y;
    }
}

impl Machine for GlideM {
    type Op = GOp;
    const NAME: &'static str = "glide";
    fn config(&self) -> Value {
        json!({"fs": self.fs})
    }
    fn ops(&self, out: &mut Vec<GOp>) {
        for x in self.inputs.iter() {
            out.push(GOp::Process(*x));
        }
        out.push(GOp::Feedback);
        out.push(GOp::Hold(self.inputs[1], 8));
        out.push(GOp::Hold(self.inputs[0], 8));
        for t in self.tmenu.iter() {
            out.push(GOp::SetTime(*t));
        }
    }
    fn apply(&mut self, op: &GOp, out: &mut StepOut) {
        let mut fnd: Vec<Finding> = Vec::new();
        match *op {
            GOp::Process(x) => self.sample(x, &mut fnd, out),
            GOp::Feedback => {
                let x = self.prev_y;
                self.sample(x, &mut fnd, out);
                out.count("feedback_samples");
            }
            GOp::Hold(x, n) => {
                for _ in 0..n {
                    self.sample(x, &mut fnd, out);
                    if !fnd.is_empty() {
                        break;
                    }
                }
            }
            GOp::SetTime(t) => {
                // the deviation the output may carry right now stays allowed after the change (and then decays)
                let before = self.allowance();
                self.g.set_time(t);
                self.times.request(t);
                self.carry = (before - 4.0 * ulp32(self.mag.max(f32::MIN_POSITIVE)) as f64 / one_minus_p(self.times.max(), self.fs)).max(0.0);
                out.count("set_time_calls");
                if self.prev_x.map(|x| x != self.prev_y).unwrap_or(false) {
                    out.count("set_time_calls_while_gliding");
                }
            }
        }
        out.obs = self.prev_y.to_bits() as u64;
        for (p, c, d) in fnd {
            out.flag(p, c, d);
        }
    }
    fn key(&self) -> u128 {
        let (t, f) = self.g.verif_snapshot();
        let mut h = Hash128::new();
        h.word(t.to_bits() as u64);
        h.bytes(format!("{:?}", f).as_bytes());
        h.word(self.lo.to_bits() as u64 | (self.hi.to_bits() as u64) << 32);
        h.word(self.mag.to_bits() as u64 | (self.held.min(2) as u64) << 32);
        h.word(self.prev_x.map(|x| x.to_bits() as u64 + 1).unwrap_or(0));
        h.word(self.carry.to_bits());
        for t in &self.times.0 {
            h.word(t.to_bits() as u64);
        }
        h.finish()
    }
    fn fork(&self) -> Self {
        GlideM { g: self.g.verif_clone(), fs: self.fs, times: self.times.clone(), lo: self.lo, hi: self.hi, mag: self.mag, prev_x: self.prev_x, prev_y: self.prev_y, held: self.held, carry: self.carry, inputs: self.inputs.clone(), tmenu: self.tmenu.clone() }
    }
    fn op_str(op: &GOp) -> String {
        match op {
            GOp::Process(x) => format!("process:{:?}", x),
            GOp::Feedback => "process:last".to_string(),
            GOp::Hold(x, n) => format!("process:{:?}*{}", x, n),
            GOp::SetTime(t) => format!("set_time:{:?}", t),
        }
    }
}

pub fn parse_op(s: &str) -> GOp {
    let (a, b) = s.split_once(':').expect("glide op");
    match a {
        "process" if b == "last" => GOp::Feedback,
        "process" => GOp::Process(parse_f32(b)),
        "set_time" => GOp::SetTime(parse_f32(b)),
        _ => panic!("unknown glide op {}", s),
    }
}

pub fn replay(config: &Value, ops: &[String]) -> Vec<String> {
    let fs = config["fs"].as_f64().unwrap_or(1000.0) as f32;
    let mut m = GlideM::new(fs, vec![0.0, 1.0], vec![]);
    run_script(&mut m, ops, &parse_op, &|m: &GlideM| format!("output={:?} range=[{:?}, {:?}] times possibly in effect={:?} allowance={:e}", m.prev_y, m.lo, m.hi, m.times.0, m.allowance()))
}

fn tmenu(fs: f32) -> Vec<f32> {
    vec![0.0, -0.0, 1.0 / fs, 2.0 / fs, 3.0 / fs, 3.9 / fs, 5.0 / fs, 0.01, 0.06, 0.5, 10.0]
}

fn viol(prop: &'static str, class: &str, detail: String, fs: f32, ops: Vec<String>) -> Violation {
    Violation { prop, class: class.to_string(), detail, machine: "glide", config: json!({"fs": fs}), ops }
}

pub fn c13(ctx: &Ctx) -> Report {
    let mut rep = Report::new();
    rep.rule.push("E1: plain enumeration of ALL operation sequences to a depth (no state merging) on the real glide processor: process(x) for x in {0, 1, -1, 0.5, 10}, two 8-sample holds, set_time(t) for eleven times from 0 to 10 s incl. -0.0 and 1/fs..5/fs; plus all schedules with <= 2 set_time calls at every sample index of a 40-sample glide; plus the fast settings at every 7th (thorough: every) integer sample rate and a fractional neighbour of each; plus long holds for convergence (continued until the output rests; it must rest on the input), also after a time change in mid-glide; after every sample: output within [min(0, inputs), max(0, inputs)] +- A, with A = 4*ulp(M)/(1-p); while the input is held, from the second held sample on, the output never moves away from it nor crosses it (beyond A); non-trivial = held samples checked while the output was still moving".into());
    let thorough = ctx.tier.is_thorough();
    let rates: Vec<(f32, u32)> = if thorough { vec![(100.0, 6), (1000.0, 6), (48000.0, 6), (441.0, 5), (8000.0, 5), (44100.0, 5), (12345.0, 5), (100.9, 5), (22050.0, 5), (999.5, 5), (44117.647, 5), (33333.332, 5)] } else { vec![(100.0, 5), (1000.0, 5), (48000.0, 5), (441.0, 4), (44100.0, 4), (100.9, 4), (22050.0, 4), (999.5, 4), (44117.647, 4)] };
    for (fs, depth) in rates {
        let m = GlideM::new(fs, vec![0.0, 1.0, -1.0, 0.5, 10.0], tmenu(fs));
        enumerate_sequences(&m, depth, ctx, &mut rep, &["C13"], &format!("all operation sequences of length {} at {} Hz", depth, fs));
    }
    // deviation-bounded schedules: a 40-sample glide 0 -> 1 with <= 2 set_time calls at every sample index
    for fs in if thorough { vec![100.0f32, 1000.0, 48000.0, 100.9, 22050.0] } else { vec![100.0f32, 1000.0, 100.9] } {
        let tm = tmenu(fs);
        let tmr = &tm;
        let nt = tm.len() as u64;
        par_ranges(ctx, &mut rep, nt * nt * nt, nt * nt * nt, |_, lo, hi, lc| {
            for idx in lo..hi {
                let t0 = tmr[(idx / (nt * nt)) as usize];
                let t1 = tmr[((idx / nt) % nt) as usize];
                let t2 = tmr[(idx % nt) as usize];
                for i in 0..=40u32 {
                    for j in i..=40u32 {
                        if j == i && t2 != tmr[0] {
                            continue; // a single set_time call: t2 is irrelevant, enumerate it once
                        }
                        let mut m = GlideM::new(fs, vec![0.0, 1.0], vec![]);
                        let mut ops: Vec<GOp> = vec![GOp::SetTime(t0), GOp::Process(0.0)];
                        for k in 0..=40u32 {
                            if k == i {
                                ops.push(GOp::SetTime(t1));
                            }
                            if k == j && j != i {
                                ops.push(GOp::SetTime(t2));
                            }
                            if k < 40 {
                                ops.push(GOp::Process(1.0));
                            }
                        }
                        for (n, op) in ops.iter().enumerate() {
                            let mut out = StepOut::new();
                            let r = std::panic::catch_unwind(std::panic::AssertUnwindSafe(|| m.apply(op, &mut out)));
                            if let Err(e) = r {
                                lc.violation(viol("C13", "panic", format!("the real code panicked: {}", panic_msg(&e)), fs, ops[..=n].iter().map(GlideM::op_str).collect()));
                                break;
                            }
                            for (k, c) in out.counts {
                                lc.count(k, c);
                            }
                            if !out.flags.is_empty() {
                                for f in out.flags {
                                    let already = lc.per_class.get(&f.class).copied().unwrap_or(0);
                                    let s = if already < PER_CLASS_CAP { ops[..=n].iter().map(GlideM::op_str).collect() } else { Vec::new() };
                                    lc.violation(viol("C13", &f.class, f.detail, fs, s));
                                }
                                break;
                            }
                        }
                        lc.count("schedules", 1);
                    }
                }
            }
        });
    }
    // every integer sample rate in [100, 48000] (quick: every 7th, which visits every residue modulo 2..6, 8, 16),
    // each also raised by a fraction (+0.5, +0.96875, +0.03125, +1/3 in turn): the fast settings around the 2- and
    // 4-sample limits, from rest and switched in during a glide
    {
        let stride: u64 = if thorough { 1 } else { 7 };
        let n = (48_000 - 100) / stride + 1;
        par_ranges(ctx, &mut rep, 2 * n, 512, |_, lo, hi, lc| {
            for i2 in lo..hi {
                let i = i2 / 2;
                let base = (100 + i * stride) as f32;
                let fs = if i2 % 2 == 0 { base } else { (base + [0.5f32, 0.96875, 0.03125, 0.333_333_34][(i % 4) as usize]).min(48_000.0) };
                if i2 % 2 == 1 {
                    lc.count("non_integer_rate_fast_settings", 1);
                }
                for k in [0.0f32, 1.0, 2.0, 3.0, 3.5, 3.9, 4.0, 4.5, 6.0, 10.0] {
                    for mid in [false, true] {
                        let t = k / fs;
                        let mut m = GlideM::new(fs, vec![0.0, 1.0], vec![]);
                        let mut ops: Vec<GOp> = Vec::new();
                        if mid {
                            ops.extend([GOp::SetTime(0.2), GOp::Process(0.0), GOp::Hold(1.0, 5), GOp::SetTime(t), GOp::Hold(1.0, 12), GOp::Hold(0.25, 12)]);
                        } else {
                            ops.extend([GOp::SetTime(t), GOp::Hold(1.0, 12), GOp::Hold(-0.5, 12)]);
                        }
                        for (idx, op) in ops.iter().enumerate() {
                            let mut out = StepOut::new();
                            m.apply(op, &mut out);
                            for (kk, c) in out.counts {
                                lc.count(kk, c);
                            }
                            if !out.flags.is_empty() {
                                for f in out.flags {
                                    let already = lc.per_class.get(&f.class).copied().unwrap_or(0);
                                    lc.violation(viol("C13", &f.class, f.detail, fs, if already < PER_CLASS_CAP { ops[..=idx].iter().map(GlideM::op_str).collect() } else { Vec::new() }));
                                }
                                break;
                            }
                        }
                        lc.count("integer_rate_fast_settings", 1);
                    }
                }
            }
        });
    }
    // convergence: a held input is reached. The statement sets no deadline, so after 8*t*fs + 16 samples the hold
    // is continued until the output rests (unchanged over 16 samples), at most 40*t*fs + 4096 samples; where it rests
    // must be the input (within A). Also after a time change in the middle of a glide (pre = Some(t0)).
    let mut jobs: Vec<(f32, f32, f32, f32, Option<f32>)> = Vec::new(); // fs, t, from, to, earlier time
    for fs in [100.0f32, 1000.0, 48000.0, 100.9, 22050.0] {
        for t in tmenu(fs).into_iter().chain([0.2f32, 2.5, 7.5]) {
            if fs > 100.9 && t > 0.06 && !(thorough && fs == 1000.0) {
                continue;
            }
            for (a, b) in [(0.0f32, 1.0f32), (1.0, 0.0), (0.0, 10.0), (-1.0, 1.0), (5.0, 5.083_333_5), (0.25, 0.75), (0.0, 1.0e-10), (0.0, -1.0e-13), (1.0e-30, 3.0e-30), (0.0, 1.0e10), (-2.5e3, 1.0e3), (0.0, 1.0e36), (-2.5e37, 1.0e37)] {
                jobs.push((fs, t, a, b, None));
            }
            if t <= 0.5 || fs <= 100.9 {
                for t0 in [0.5f32, 0.0, 3.0 / fs, 10.0] {
                    jobs.push((fs, t, 0.0, 1.0, Some(t0)));
                    jobs.push((fs, t, -1.0, 0.25, Some(t0)));
                }
            }
        }
    }
    let jr = &jobs;
    par_ranges(ctx, &mut rep, jobs.len() as u64, jobs.len() as u64, |_, lo, hi, lc| {
        for j in lo..hi {
            let (fs, t, a, b, pre) = jr[j as usize];
            let mut m = GlideM::new(fs, vec![a, b], vec![]);
            let n = (8.0 * t.max(0.0) as f64 * fs as f64).ceil() as u32 + 16;
            let horizon = (40.0 * t.max(0.0) as f64 * fs as f64).ceil() as u64 + 4096;
            let mut ops = match pre {
                None => vec![GOp::SetTime(t), GOp::Hold(a, n), GOp::Hold(b, n)],
                // the earlier time is in effect for the first five samples of the glide a -> b, then t is requested
                Some(t0) => vec![GOp::SetTime(t0), GOp::Hold(a, 3), GOp::Hold(b, 5), GOp::SetTime(t), GOp::Hold(b, n)],
            };
            let targets: Vec<Option<f32>> = match pre {
                None => vec![None, Some(a), Some(b)],
                Some(_) => vec![None, None, None, None, Some(b)],
            };
            let mut ok = true;
            let mut k = 0usize;
            while k < ops.len() {
                let op = ops[k].clone();
                let mut out = StepOut::new();
                m.apply(&op, &mut out);
                for (kk, c) in out.counts {
                    lc.count(kk, c);
                }
                for f in out.flags {
                    ok = false;
                    lc.violation(viol("C13", &f.class, f.detail, fs, ops[..=k].iter().map(GlideM::op_str).collect()));
                }
                if !ok {
                    break;
                }
                if let Some(target) = targets[k.min(targets.len() - 1)] {
                    let al = m.allowance();
                    lc.count("long_holds", 1);
                    if pre.is_some() {
                        lc.count("long_holds_after_a_time_change_in_mid_glide", 1);
                    }
                    let mut extra: u64 = 0;
                    let mut rested = (m.prev_y as f64 - target as f64).abs() <= al;
                    if !rested {
                        lc.count("long_holds_continued_beyond_8t", 1);
                    }
                    while !rested && extra < horizon {
                        let before = m.prev_y;
                        let mut out = StepOut::new();
                        m.apply(&GOp::Hold(target, 16), &mut out);
                        extra += 16;
                        for f in out.flags {
                            ok = false;
                            let mut sc: Vec<String> = ops[..=k].iter().map(GlideM::op_str).collect();
                            sc.push(format!("process:{:?}*{}", target, extra));
                            lc.violation(viol("C13", &f.class, f.detail, fs, sc));
                        }
                        if !ok || m.prev_y.to_bits() == before.to_bits() {
                            rested = true;
                        }
                    }
                    if !ok {
                        break;
                    }
                    let al = m.allowance();
                    if !((m.prev_y as f64 - target as f64).abs() <= al) {
                        let mut sc: Vec<String> = ops[..=k].iter().map(GlideM::op_str).collect();
                        if extra > 0 {
                            sc.push(format!("process:{:?}*{}", target, extra));
                        }
                        let what = if extra >= horizon { "is still moving and is at" } else { "rests at" };
                        lc.violation(viol("C13", "does-not-settle", format!("holding {:?} for {} samples (glide time {:?} s at {} Hz): the output {} {:?} (allowance {:e})", target, n as u64 + extra, t, fs, what, m.prev_y, al), fs, sc));
                    }
                    if al > 0.001 * (b - a).abs() as f64 {
                        lc.count("long_holds_weak_allowance_exceeds_0.1_percent_of_step", 1);
                    }
                }
                k += 1;
            }
            let _ = &mut ops;
        }
    });
    let s = rep.counters.get("samples").copied().unwrap_or(0);
    rep.evaluations += s;
    rep.nontrivial = rep.counters.get("held_samples_with_output_still_moving").copied().unwrap_or(0);
    rep.exhaustive = false;
    rep.require_nonzero("held_samples_with_output_still_moving");
    rep.require_nonzero("set_time_calls_while_gliding");
    rep.require_nonzero("long_holds");
    rep.require_nonzero("integer_rate_fast_settings");
    rep.require_nonzero("non_integer_rate_fast_settings");
    rep.require_nonzero("long_holds_after_a_time_change_in_mid_glide");
    rep.sample(json!({"script": {"machine": "glide", "config": {"fs": 1000.0}, "ops": ["set_time:1.0", "process:0.0", "process:1.0*500", "set_time:0.0", "process:1.0*8"]}, "meaning": "switching the glide off in the middle of a glide"}));
    rep.assumptions.push("inputs, times and sample rates are the stated menus; allowance A = 4*ulp(M)/(1-p) with p = 1 - min(1, 2*pi/(t*fs)) for the largest time that may be in effect".into());
    rep
}

// ------------------------------------------------------------------ C14

/// does the recorded step response (fractions of the step covered after k samples) satisfy the time-setting criterion for time e?
fn criterion(e: f32, fs: f32, resp: &[f64], a_rel: f64) -> Option<bool> {
    let e = e.min(10.0);
    let n = (e as f64 * fs as f64).round() as usize;
    if e as f64 * (fs as f64) < 2.0 {
        // fastest response: settled within 8 samples
        if resp.len() < 8 {
            return None;
        }
        return Some((resp[7] - 1.0).abs() <= 0.005 + a_rel);
    }
    if n < 100 {
        return None; // the statement makes no quantitative claim here
    }
    if resp.len() < n {
        return None;
    }
    let full = resp[n - 1];
    let tenth = resp[((e as f64 * fs as f64 / 10.0).round() as usize).max(1) - 1];
    Some(full >= 0.995 - a_rel && full <= 1.0 + a_rel && tenth >= 0.40 - a_rel && tenth <= 0.55 + a_rel)
}

fn settle_and_step(g: &mut GlideProcessor, fs: f32, t_settle: f32, a: f32, b: f32, nresp: usize) -> Vec<f64> {
    let n0 = (8.0 * (t_settle.min(10.0)) as f64 * fs as f64).ceil() as usize + 16;
    for _ in 0..n0 {
        g.process(a);
    }
    let mut resp = Vec::with_capacity(nresp);
    for _ in 0..nresp {
        let y = g.process(b);
        resp.push((y as f64 - a as f64) / (b as f64 - a as f64));
    }
    resp
}

pub fn c14(ctx: &Ctx) -> Report {
    let mut rep = Report::new();
    rep.rule.push("(a) E2 over the plane: 12 sample rates (3 non-integer) x a geometric grid of times (x1.5 quick, x1.13 thorough) from 100/fs to 10 s (plus 20, 100, 1e6 s compared with 10 s, and the sub-2-sample times 0, -0, 0.1/fs, 1/fs, 1.9/fs) x 9 steps (incl. steps that are a tiny fraction of the level they sit on), plus every 7th (thorough: every) integer sample rate and a fractional neighbour of each x 3 times from rest, the first call on a fresh processor being judged with the dead-band rule too (a fresh processor is on the setting time 0 selects): the real processor is settled, stepped, and the fraction covered after t and t/10 seconds is compared with the statement's bounds (+- the f32 allowance); (b) E1: all set_time schedules of length <= 4 over a 9-time menu and creeping ramps, at 8 kHz and at 100 Hz: the measured step response must satisfy the criterion for a time the 0.05 s dead-band rule allows to be in effect; (c) E1, differential: chains of 2-3 set_time calls (15 base times 0..10 s incl. -0.0 x 28 signed offsets 0.02..3 s, three of them just outside the dead band, both orders) at 3 (thorough 6) sample rates: the step response must equal, within 1e-6, that of a processor set directly to a time the rule allows to be in effect; non-trivial = step responses measured with >= 100 samples per t".into());
    let thorough = ctx.tier.is_thorough();
    let rates: [f32; 12] = [100.0, 441.0, 1000.0, 8000.0, 44100.0, 48000.0, 22050.0, 12345.0, 250.0, 100.9, 999.5, 44117.647];
    let steps: [(f32, f32); 9] = [(0.0, 1.0), (1.0, 0.0), (0.0, 10.0), (-1.0, 1.0), (0.25, 0.75), (5.0, 5.083_333_5), (100.0, 100.05), (-50.0, -50.02), (1.0e-3, 1.0e-3 + 1.0e-7)];
    let mut jobs: Vec<(f32, f32)> = Vec::new();
    for fs in rates {
        let mut t = 100.0 / fs;
        while t < 10.0 {
            jobs.push((fs, t));
            t *= if thorough { 1.13 } else { 1.5 };
        }
        jobs.push((fs, 10.0));
        for t in [0.0f32, -0.0, 0.1 / fs, 1.0 / fs, 1.9 / fs] {
            jobs.push((fs, t));
        }
        if thorough || fs <= 1000.0 {
            for t in [20.0f32, 100.0, 1.0e6] {
                jobs.push((fs, t));
            }
        }
    }
    let jr = &jobs;
    par_ranges(ctx, &mut rep, jobs.len() as u64, jobs.len() as u64, |_, lo, hi, lc| {
        for j in lo..hi {
            let (fs, t) = jr[j as usize];
            let r = std::panic::catch_unwind(std::panic::AssertUnwindSafe(|| {
                let mut local = LocalCounts::default();
                plane_job(fs, t, &steps, &mut local);
                local
            }));
            match r {
                Ok(local) => merge_local(lc, local),
                Err(e) => lc.violation(viol("C14", "panic", format!("the real code panicked while measuring the step response at fs={} Hz, t={:?} s: {}", fs, t, panic_msg(&e)), fs, vec![format!("set_time:{:?}", t), "process:5.0*100000".into()])),
            }
        }
    });
    fn merge_local(lc: &mut LocalCounts, l: LocalCounts) {
        for (k, v) in l.counters {
            lc.count(k, v);
        }
        for (k, v) in l.maxima {
            lc.maxf(k, v);
        }
        for v in l.viols {
            lc.violation(v);
        }
    }
    fn plane_job(fs: f32, t: f32, steps: &[(f32, f32); 9], lc: &mut LocalCounts) {
        {
            for &(a, b) in steps.iter() {
                for from_rest in [true, false] {
                    if from_rest && a != 0.0 {
                        continue;
                    }
                    let te = t.min(10.0);
                    let nresp = ((te as f64 * fs as f64).round() as usize).max(8) + 2;
                    let mut g = GlideProcessor::new(fs);
                    g.set_time(t);
                    let resp = if from_rest {
                        let mut r = Vec::new();
                        for _ in 0..nresp {
                            r.push((g.process(b) as f64 - a as f64) / (b as f64 - a as f64));
                        }
                        r
                    } else {
                        settle_and_step(&mut g, fs, t, a, b, nresp)
                    };
                    let mag = a.abs().max(b.abs());
                    let a_rel = 4.0 * ulp32(mag) as f64 / one_minus_p(t, fs) / (b as f64 - a as f64).abs();
                    lc.count("step_responses", 1);
                    if a_rel > 0.001 {
                        lc.count("step_responses_weak_allowance_exceeds_0.1_percent", 1);
                    }
                    let script = || -> Vec<String> {
                        let mut s = vec![format!("set_time:{:?}", t)];
                        if !from_rest {
                            s.push(format!("process:{:?}*{}", a, (8.0 * te as f64 * fs as f64).ceil() as usize + 16));
                        }
                        s.push(format!("process:{:?}*{}", b, nresp));
                        s
                    };
                    // the dead-band rule applies to the first call too: a fresh processor is on its fastest setting (what time
                    // 0 selects), so a first request within 0.05 s of 0 may be honoured or ignored
                    let mut first = TimeSet::new();
                    first.request(t);
                    let verdicts: Vec<Option<bool>> = first.0.iter().map(|e| criterion(*e, fs, &resp, a_rel)).collect();
                    let verdict = if verdicts.iter().any(|v| *v == Some(true)) { Some(true) } else if verdicts.iter().all(|v| *v == Some(false)) { Some(false) } else { None };
                    match verdict {
                        Some(true) => {
                            if te * fs >= 100.0 {
                                lc.count("step_responses_with_100_samples_per_t", 1);
                                let n = (te as f64 * fs as f64).round() as usize;
                                lc.maxf("max_fraction_after_t_over_10", resp[((te as f64 * fs as f64 / 10.0).round() as usize).max(1) - 1]);
                                lc.maxf("min_fraction_after_t_negated", -resp[n - 1]);
                            } else {
                                lc.count("fastest_setting_responses", 1);
                            }
                        }
                        Some(false) => {
                            let n = ((te as f64 * fs as f64).round() as usize).max(1);
                            let class = if te * fs < 2.0 { "fastest-setting-not-settled-in-8-samples" } else { "time-constant" };
                            lc.violation(viol("C14", class, format!("fs={} Hz, t={:?} s, step {:?} -> {:?}: covered {:.4} after t, {:.4} after t/10 (8th sample: {:.5}); allowance {:e}", fs, t, a, b, resp[(n - 1).min(resp.len() - 1)], resp[((te as f64 * fs as f64 / 10.0).round() as usize).max(1) - 1], resp[7.min(resp.len() - 1)], a_rel), fs, script()));
                        }
                        None => lc.count("step_responses_without_quantitative_claim", 1),
                    }
                    // times above 10 s behave like 10 s
                    if t > 10.0 {
                        let mut g10 = GlideProcessor::new(fs);
                        g10.set_time(10.0);
                        let mut gt = GlideProcessor::new(fs);
                        gt.set_time(t);
                        let mut worst = 0.0f64;
                        for k in 0..(if fs <= 1000.0 { 20000 } else { 200000 }) {
                            let x = if k < 10 { a } else { b };
                            let d = (g10.process(x) as f64 - gt.process(x) as f64).abs();
                            if d > worst {
                                worst = d;
                            }
                        }
                        lc.count("above_10s_comparisons", 1);
                        if worst > 1.0e-6 * mag.max(1.0) as f64 {
                            lc.violation(viol("C14", "above-10s-differs-from-10s", format!("fs={} Hz: set_time({:?}) differs from set_time(10) by up to {:e}", fs, t, worst), fs, script()));
                        }
                    }
                }
            }
        }
    }
    // every integer sample rate in [100, 48000] (quick: every 7th) and a fractional neighbour of each: step from rest
    // at three times
    {
        let stride: u64 = if thorough { 1 } else { 7 };
        let n = (48_000 - 100) / stride + 1;
        par_ranges(ctx, &mut rep, 2 * n, 512, |_, lo, hi, lc| {
            for i2 in lo..hi {
                let i = i2 / 2;
                let base = (100 + i * stride) as f32;
                let fs = if i2 % 2 == 0 { base } else { (base + [0.5f32, 0.96875, 0.03125, 0.333_333_34][(i % 4) as usize]).min(48_000.0) };
                for t in [150.0 / fs, 0.013 + 100.0 / fs, 1.3 / fs] {
                    let nresp = ((t as f64 * fs as f64).round() as usize).max(8) + 2;
                    let mut g = GlideProcessor::new(fs);
                    g.set_time(t);
                    let mut resp = Vec::with_capacity(nresp);
                    for _ in 0..nresp {
                        resp.push(g.process(1.0) as f64);
                    }
                    let a_rel = 4.0 * ulp32(1.0) as f64 / one_minus_p(t, fs);
                    lc.count("integer_rate_step_responses", 1);
                    let mut first = TimeSet::new();
                    first.request(t);
                    if first.0.iter().all(|e| criterion(*e, fs, &resp, a_rel) == Some(false)) {
                        let nn = ((t as f64 * fs as f64).round() as usize).max(1);
                        lc.violation(viol("C14", if t * fs < 2.0 { "fastest-setting-not-settled-in-8-samples" } else { "time-constant" }, format!("fs={} Hz, t={:?} s, step 0 -> 1 from rest: covered {:.4} after t, {:.4} after t/10", fs, t, resp[(nn - 1).min(resp.len() - 1)], resp[((t as f64 * fs as f64 / 10.0).round() as usize).max(1) - 1]), fs, vec![format!("set_time:{:?}", t), format!("process:1.0*{}", nresp)]));
                    }
                }
            }
        });
        rep.evaluations += n * 6;
    }
    // (b) dead band: schedules
    let menu: [f32; 9] = [0.0, 0.04, 0.5, 0.53, 0.56, 0.6, 1.0, 1.04, 5.0];
    let mut scheds: Vec<Vec<f32>> = Vec::new();
    let maxlen = if thorough { 4 } else { 3 };
    for len in 1..=maxlen {
        let n = 9usize.pow(len as u32);
        for i in 0..n {
            let mut x = i;
            let mut s = Vec::new();
            for _ in 0..len {
                s.push(menu[x % 9]);
                x /= 9;
            }
            scheds.push(s);
        }
    }
    // creeping ramps
    for step in [0.04f32, 0.049, 0.03, -0.04] {
        let mut s = Vec::new();
        let mut t = if step > 0.0 { 0.5f32 } else { 2.0 };
        for _ in 0..(if thorough { 40 } else { 15 }) {
            s.push(t);
            t += step;
        }
        scheds.push(s);
    }
    let sr = &scheds;
    // every schedule is run twice: (0) all calls before any sample, step 0 -> 1; (1) the first call before any
    // sample, then the processor is settled on a non-zero level, then the remaining calls, then a step 5 -> 6
    // (a time change must neither disturb the level the output rests on nor the response that follows)
    par_ranges(ctx, &mut rep, scheds.len() as u64 * 4, 512, |_, lo, hi, lc| {
        for idx4 in lo..hi {
            // the dead band is a property of the time alone: the same schedules at a high and at the lowest sample rate
            let fs = if idx4 % 2 == 0 { 8000.0f32 } else { 100.0f32 };
            let idx = idx4 / 2;
            let sch = &sr[(idx / 2) as usize];
            let variant = idx % 2;
            if variant == 1 && sch.len() < 2 {
                continue;
            }
            let (a, b) = if variant == 0 { (0.0f32, 1.0f32) } else { (5.0f32, 6.0f32) };
            let mut g = GlideProcessor::new(fs);
            let mut set = TimeSet::new();
            let mut ops: Vec<String> = Vec::new();
            let split = if variant == 0 { sch.len() } else { 1 };
            for t in &sch[..split] {
                g.set_time(*t);
                set.request(*t);
                ops.push(format!("set_time:{:?}", t));
            }
            if variant == 1 {
                let n0 = (8.0 * (set.max().min(10.0)) as f64 * fs as f64).ceil() as usize + 16;
                for _ in 0..n0 {
                    g.process(a);
                }
                ops.push(format!("process:{:?}*{}", a, n0));
                for t in &sch[split..] {
                    g.set_time(*t);
                    set.request(*t);
                    ops.push(format!("set_time:{:?}", t));
                }
            }
            let tmax = set.max();
            let nresp = ((tmax as f64 * fs as f64).round() as usize).max(8) + 2;
            let resp = if variant == 0 {
                ops.push(format!("process:{:?}*{}", a, (8.0 * tmax as f64 * fs as f64).ceil() as usize + 16));
                settle_and_step(&mut g, fs, tmax, a, b, nresp)
            } else {
                let mut r = Vec::with_capacity(nresp);
                for _ in 0..nresp {
                    r.push((g.process(b) as f64 - a as f64) / (b as f64 - a as f64));
                }
                r
            };
            ops.push(format!("process:{:?}*{}", b, nresp));
            lc.count("schedules", 1);
            if variant == 1 {
                lc.count("schedules_with_time_changes_on_a_settled_non_zero_level", 1);
            }
            if set.0.len() > 1 {
                lc.count("schedules_ending_inside_the_dead_band", 1);
            }
            let a_rel = 4.0 * ulp32(b) as f64 / one_minus_p(tmax, fs) / (b - a) as f64;
            let verdicts: Vec<Option<bool>> = set.0.iter().map(|e| criterion(*e, fs, &resp, a_rel)).collect();
            if verdicts.iter().any(|v| *v == Some(true)) {
                lc.count("schedules_matching_an_allowed_time", 1);
            } else if verdicts.iter().all(|v| *v == Some(false)) {
                lc.violation(viol("C14", "set-time-not-honoured", format!("after the set_time calls {:?} the step response {:?} -> {:?} matches none of the times the dead-band rule allows to be in effect {:?} (covered {:.4} after {:?} s)", sch, a, b, set.0, resp[((set.0[0] as f64 * fs as f64).round() as usize).clamp(1, resp.len()) - 1], set.0[0]), fs, ops));
            } else {
                lc.count("schedules_without_quantitative_claim", 1);
            }
        }
    });
    // (c) dead band, differential: "honoured" means the processor then behaves as one on which that time was set
    // directly. After a chain of set_time calls on a fresh processor the step response from rest must be the response
    // of a reference processor for one of the times the dead-band rule allows to be in effect; the reference is
    // brought to time e by a request that is at least 5 s away from e (always honoured) followed by e.
    {
        let bases: [f32; 15] = [0.0, -0.0, 0.03, 0.1, 0.2, 0.3, 0.5, 1.0, 2.0, 3.0, 5.0, 7.0, 9.0, 9.9, 10.0];
        let deltas: [f32; 14] = [0.02, 0.04, 0.0502, 0.0509, 0.0515, 0.06, 0.08, 0.11, 0.15, 0.21, 0.3, 0.5, 1.0, 3.0];
        let mut chains: Vec<Vec<f32>> = Vec::new();
        for b in bases {
            for d in deltas {
                for sg in [1.0f32, -1.0] {
                    let r = b + sg * d;
                    if (0.0..=10.0).contains(&r) {
                        chains.push(vec![b, r]);
                        chains.push(vec![r, b]);
                    }
                    // three calls: the middle one may or may not have been honoured; the third is judged against
                    // the time really in effect
                    for d2 in [0.04f32, 0.06, -0.04, -0.06] {
                        let r2 = r + d2;
                        if d <= 0.08 && (0.0..=10.0).contains(&r) && (0.0..=10.0).contains(&r2) {
                            chains.push(vec![b, r, r2]);
                        }
                    }
                }
            }
        }
        let crates: Vec<f32> = if thorough { vec![100.0, 1000.0, 8000.0, 44100.0, 100.9, 48000.0] } else { vec![100.0, 1000.0, 8000.0] };
        let cr = &chains;
        let rr = &crates;
        let total = (chains.len() * crates.len()) as u64;
        par_ranges(ctx, &mut rep, total, 256, |_, lo, hi, lc| {
            let respond = |calls: &[f32], fs: f32, n: usize| -> Vec<f32> {
                let mut g = GlideProcessor::new(fs);
                for t in calls {
                    g.set_time(*t);
                }
                (0..n).map(|_| g.process(1.0)).collect()
            };
            let far = |e: f32| if e < 5.0 { 10.0f32 } else { 0.0f32 };
            let dist = |x: &[f32], y: &[f32]| x.iter().zip(y.iter()).map(|(p, q)| (*p as f64 - *q as f64).abs()).fold(0.0f64, f64::max);
            for idx in lo..hi {
                let fs = rr[(idx as usize) % rr.len()];
                let chain = &cr[(idx as usize) / rr.len()];
                let mut set = TimeSet::new();
                for t in chain {
                    set.request(*t);
                }
                let tmax = chain.iter().cloned().fold(0.0f32, f32::max);
                let n = ((0.25 * tmax as f64 * fs as f64).ceil() as usize).clamp(24, 30_000);
                let tol = 1.0e-6f64;
                let r = std::panic::catch_unwind(std::panic::AssertUnwindSafe(|| {
                    let got = respond(chain, fs, n);
                    let refs: Vec<(f32, f64)> = set.0.iter().map(|e| (*e, dist(&got, &respond(&[far(*e), *e], fs, n)))).collect();
                    // power of this case: would the response have been different had the last call been ignored?
                    let prev = chain[chain.len() - 2];
                    let stale = dist(&respond(&[far(prev), prev], fs, n), &respond(&[far(chain[chain.len() - 1]), chain[chain.len() - 1]], fs, n));
                    (refs, stale)
                }));
                let ops: Vec<String> = chain.iter().map(|t| format!("set_time:{:?}", t)).chain([format!("process:1.0*{}", n)]).collect();
                match r {
                    Err(e) => lc.violation(viol("C14", "panic", format!("the real code panicked: {}", panic_msg(&e)), fs, ops)),
                    Ok((refs, stale)) => {
                        lc.count("dead_band_differential_chains", 1);
                        if set.0.len() == 1 && stale > 100.0 * tol {
                            lc.count("dead_band_differential_chains_where_ignoring_the_last_call_would_show", 1);
                        }
                        if !refs.iter().any(|(_, d)| *d <= tol) {
                            lc.violation(viol("C14", "set-time-not-honoured", format!("fs={} Hz: after the set_time calls {:?} on a fresh processor the response to a step 0 -> 1 over {} samples differs from that of a processor set directly to each time the dead-band rule allows to be in effect: {:?} (time, largest difference)", fs, chain, n, refs), fs, ops));
                        }
                    }
                }
            }
        });
        rep.require_nonzero("dead_band_differential_chains_where_ignoring_the_last_call_would_show");
    }
    let n = rep.counters.get("step_responses").copied().unwrap_or(0) + rep.counters.get("schedules").copied().unwrap_or(0) + rep.counters.get("dead_band_differential_chains").copied().unwrap_or(0);
    rep.evaluations += n;
    rep.states += n;
    rep.transitions += n;
    rep.traces += n;
    rep.nontrivial = rep.counters.get("step_responses_with_100_samples_per_t").copied().unwrap_or(0) + rep.counters.get("schedules_matching_an_allowed_time").copied().unwrap_or(0);
    rep.exhaustive = false;
    rep.require_nonzero("step_responses_with_100_samples_per_t");
    rep.require_nonzero("fastest_setting_responses");
    rep.require_nonzero("schedules_ending_inside_the_dead_band");
    rep.require_nonzero("schedules_with_time_changes_on_a_settled_non_zero_level");
    rep.require_nonzero("above_10s_comparisons");
    rep.require_nonzero("integer_rate_step_responses");
    rep.sample(json!({"fs": 1000.0, "t": 0.5, "step": [0.0, 1.0], "expected": "fraction after 500 samples >= 0.995, after 50 samples in [0.40, 0.55]"}));
    rep.sample(json!({"schedule": [0.5, 0.53, 0.56], "times_allowed_in_effect": [0.56, 0.53]}));
    rep
}
