//! LFO: C10 (shape per phase), C11 (phase advance / positioning), C12 (continuity)

use crate::common::*;
use crate::explore::*;
use serde_json::{json, Value};
use synth_utils::lfo::{Lfo, Waveshape};

pub const M24: u32 = 1 << 24;
const FS0: f32 = 1024.0; // with this rate, frequency c*2^-14 Hz gives increment exactly c

#[derive(Clone, Copy, Debug, PartialEq)]
pub struct Shapes {
    pub sine: f32,
    pub tri: f32,
    pub up: f32,
    pub down: f32,
    pub sq: f32,
}

pub fn read(l: &Lfo) -> Shapes {
    Shapes {
        sine: l.get(Waveshape::Sine),
        tri: l.get(Waveshape::Triangle),
        up: l.get(Waveshape::UpSaw),
        down: l.get(Waveshape::DownSaw),
        sq: l.get(Waveshape::Square),
    }
}

/// the phase counter, recovered from the public up-saw output: (v+1)*2^23
pub fn phase_of(l: &Lfo) -> Result<u32, String> {
    let v = l.get(Waveshape::UpSaw) as f64;
    let c = (v + 1.0) * 8388608.0;
    if !(c >= 0.0 && c < 16777216.0 && c.fract() == 0.0) {
        return Err(format!("up-saw {} is not 2*phase-1 for any 24-bit phase", v));
    }
    Ok(c as u32)
}

/// a fresh oscillator placed at phase counter `c` through the public API only
/// The statement lets one tick fall short of the ideal advance by up to one counter step (plus rounding), so a
/// request for exactly c counts may land on c - 1: the oscillator is then nudged on by a request for d + 0.5 counts,
/// which every conforming implementation realises as d.
pub fn lfo_at(c: u32) -> Lfo {
    let mut l = Lfo::new(FS0);
    let mut target = c;
    for _attempt in 0..6 {
        let got = match phase_of(&l) {
            Ok(g) => g,
            Err(_) => break,
        };
        let d = c.wrapping_sub(got) & (M24 - 1);
        if d == 0 {
            break;
        }
        if d < (1 << 22) {
            l.set_frequency((d as f32 + 0.5) / 16384.0);
            l.tick();
        } else if got == 0 && d == c {
            // first move over a long distance: ask for the whole distance (exactly representable)
            l.set_frequency(target as f32 / 16384.0);
            l.tick();
        } else {
            // overshot (rounding of a large request): start again a little lower
            target = target.saturating_sub(4 + (M24 - d));
            l = Lfo::new(FS0);
            if target == 0 {
                continue;
            }
            l.set_frequency(target as f32 / 16384.0);
            l.tick();
        }
    }
    l.set_frequency(0.0);
    l
}

/// frequency request (fs = 1024 Hz) for an increment of exactly k counts per tick: k + 0.5 counts where that is
/// representable (every conforming implementation truncates it to k, whatever its scaling), else k itself
fn inc_freq(k: u32) -> f32 {
    if k != 0 && k < (1 << 22) {
        (k as f32 + 0.5) / 16384.0
    } else {
        k as f32 / 16384.0
    }
}

pub type Finding = (&'static str, &'static str, String);

/// two readings at the same phase: the four exact shapes must be identical, the sine may differ by rounding
pub fn same_outputs(a: &Shapes, b: &Shapes) -> bool {
    a.tri == b.tri && a.up == b.up && a.down == b.down && a.sq == b.sq && (a.sine as f64 - b.sine as f64).abs() <= 4.0 * f32::EPSILON as f64
}

/// C10 oracle for one state
pub fn c10_state(c: u32, s: &Shapes, out: &mut Vec<Finding>) {
    let p = c as f64 / M24 as f64;
    for (n, v) in [("sine", s.sine), ("triangle", s.tri), ("up-saw", s.up), ("down-saw", s.down), ("square", s.sq)] {
        if !(v >= -1.0 && v <= 1.0) {
            out.push(("C10", "range", format!("{} = {} outside [-1, 1] at phase {}/2^24", n, v, c)));
        }
    }
    let up = 2.0 * p - 1.0;
    if s.up as f64 != up {
        out.push(("C10", "up-saw", format!("up-saw = {} but 2*phase-1 = {} at phase {}/2^24", s.up, up, c)));
    }
    if s.down as f64 != -(s.up as f64) {
        out.push(("C10", "down-saw", format!("down-saw = {} is not the negation of up-saw {} at phase {}/2^24", s.down, s.up, c)));
    }
    let sq = if c < M24 / 2 { 1.0 } else { -1.0 };
    if s.sq != sq {
        out.push(("C10", "square", format!("square = {} expected {} at phase {}/2^24", s.sq, sq, c)));
    }
    let q = 4.0 * p;
    let tri = if q < 1.0 { q } else if q < 3.0 { 2.0 - q } else { q - 4.0 };
    if s.tri as f64 != tri {
        out.push(("C10", "triangle", format!("triangle = {} expected {} at phase {}/2^24", s.tri, tri, c)));
    }
    let sn = (2.0 * std::f64::consts::PI * p).sin();
    if !((s.sine as f64 - sn).abs() <= 0.0125) {
        out.push(("C10", "sine", format!("sine = {} but sin(2 pi phase) = {} at phase {}/2^24", s.sine, sn, c)));
    }
}

/// C12 oracle for one tick from phase c0 to c1
pub fn c12_pair(c0: u32, s0: &Shapes, c1: u32, s1: &Shapes, out: &mut Vec<Finding>) -> (f64, f64) {
    let d = (c1.wrapping_sub(c0) & (M24 - 1)) as f64 / M24 as f64;
    let ds = (s1.sine as f64 - s0.sine as f64).abs();
    let dt = (s1.tri as f64 - s0.tri as f64).abs();
    let bs = 2.0 * std::f64::consts::PI * 1.002 * d + 2.0 * (f32::EPSILON as f64);
    let bt = 4.0 * d;
    if !(ds <= bs) {
        let class = if c1 < c0 { "sine-step-at-wrap" } else { "sine-step" };
        out.push(("C12", class, format!("sine jumps by {:e} (bound {:e}) between phase {}/2^24 and {}/2^24 ({} -> {})", ds, bs, c0, c1, s0.sine, s1.sine)));
    }
    if !(dt <= bt) {
        out.push(("C12", "triangle-step", format!("triangle jumps by {:e} (bound {:e}) between phase {}/2^24 and {}/2^24", dt, bt, c0, c1)));
    }
    (ds / bs, if bt > 0.0 { dt / bt } else { 0.0 })
}

/// C11 oracle for one tick at frequency f, sample rate fs
pub fn c11_tick(fs: f32, f: f32, c0: u32, c1: u32, out: &mut Vec<Finding>) -> f64 {
    let ideal = f as f64 / fs as f64 * M24 as f64;
    let d = (c1.wrapping_sub(c0) & (M24 - 1)) as f64;
    // d is known modulo 2^24 only
    let mut diff = (d - ideal) % (M24 as f64);
    if diff > (M24 / 2) as f64 {
        diff -= M24 as f64;
    }
    if diff < -((M24 / 2) as f64) {
        diff += M24 as f64;
    }
    let hi = ideal * (2.0f64).powi(-23) + 1e-9;
    let lo = -(ideal * (2.0f64).powi(-23) + 1.0) - 1e-9;
    if !(diff >= lo && diff <= hi) {
        let class = if diff > hi { "tick-too-fast" } else { "tick-too-slow" };
        out.push(("C11", class, format!("one tick at f={} Hz, fs={} Hz moved the phase by {} counts, ideal {:.6} (allowed {:.6}..{:.6})", f, fs, d, ideal, ideal + lo, ideal + hi)));
    }
    diff
}

fn circ(a: f64, b: f64) -> f64 {
    let d = (a - b).abs() % 1.0;
    d.min(1.0 - d)
}

/// C11 oracle for set_phase(p): `c` is the phase counter afterwards; `mirror`
/// is the counter obtained for -(|p| mod 1) (only used for p < 0)
pub fn c11_set_phase(p: f32, c: u32, mirror: Option<u32>, out: &mut Vec<Finding>) -> f64 {
    let ph = c as f64 / M24 as f64;
    let tol = (2.0f64).powi(-22);
    if p >= 0.0 {
        let fr = (p as f64) % 1.0;
        let e = circ(ph, fr);
        if !(e <= tol) {
            out.push(("C11", "set-phase", format!("set_phase({:?}) gives phase {} (counter {}), fractional part is {}", p, ph, c, fr)));
        }
        e
    } else {
        let m = mirror.unwrap() as f64 / M24 as f64;
        let e = circ(ph, m);
        if !(e <= tol) {
            out.push(("C11", "set-phase-negative", format!("set_phase({:?}) gives phase {} but set_phase({:?}), equal modulo 1, gives {}", p, ph, -((-p) % 1.0), m)));
        }
        e
    }
}

// ------------------------------------------------------------------ machine (E1 and replay)

#[derive(Clone, Copy, Debug, PartialEq)]
pub enum LfoOp {
    Tick,
    Freq(f32),
    Phase(f32),
    Reset,
}

#[derive(Clone)]
pub struct LfoM {
    pub lfo: Lfo,
    pub fs: f32,
    pub freq: f32,
    pub freqs: Vec<f32>,
    pub phases: Vec<f32>,
}

impl LfoM {
    pub fn new(fs: f32, freqs: Vec<f32>, phases: Vec<f32>) -> Self {
        LfoM { lfo: Lfo::new(fs), fs, freq: f32::NAN, freqs, phases }
    }
}

impl Machine for LfoM {
    type Op = LfoOp;
    const NAME: &'static str = "lfo";
    fn config(&self) -> Value {
        json!({"fs": self.fs})
    }
    fn ops(&self, out: &mut Vec<LfoOp>) {
        out.push(LfoOp::Tick);
        out.push(LfoOp::Reset);
        for f in &self.freqs {
            out.push(LfoOp::Freq(*f));
        }
        for p in &self.phases {
            out.push(LfoOp::Phase(*p));
        }
    }
    fn apply(&mut self, op: &LfoOp, out: &mut StepOut) {
        let mut fnd: Vec<Finding> = Vec::new();
        let c0 = phase_of(&self.lfo);
        let s0 = read(&self.lfo);
        match op {
            LfoOp::Tick => self.lfo.tick(),
            LfoOp::Freq(f) => {
                self.lfo.set_frequency(*f);
                self.freq = *f;
            }
            LfoOp::Phase(p) => self.lfo.set_phase(*p),
            LfoOp::Reset => self.lfo.reset(),
        }
        let c1 = phase_of(&self.lfo);
        let s1 = read(&self.lfo);
        match (c0, c1) {
            (Ok(c0), Ok(c1)) => {
                c10_state(c1, &s1, &mut fnd);
                // outputs depend on the phase only: compare with a fresh oscillator put at the same phase
                let canon = read(&lfo_at(c1));
                if !same_outputs(&canon, &s1) {
                    fnd.push(("C10", "history-dependent", format!("outputs {:?} at phase {} differ from those of a fresh oscillator at the same phase {:?}", s1, c1, canon)));
                }
                match op {
                    LfoOp::Tick => {
                        // no property fixes the frequency of an oscillator before its first set_frequency
                        if self.freq.is_nan() {
                            out.count("ticks_before_the_first_set_frequency");
                        } else {
                            c11_tick(self.fs, self.freq, c0, c1, &mut fnd);
                        }
                        c12_pair(c0, &s0, c1, &s1, &mut fnd);
                        out.count("ticks");
                        if c1 < c0 {
                            out.count("ticks_across_wrap");
                        }
                    }
                    LfoOp::Freq(_) => {
                        if c0 != c1 {
                            fnd.push(("C11", "freq-change-moves-phase", format!("set_frequency moved the phase counter from {} to {}", c0, c1)));
                        }
                        out.count("freq_changes");
                    }
                    LfoOp::Phase(p) => {
                        let mirror = if *p < 0.0 {
                            let mut l = Lfo::new(self.fs);
                            l.set_phase(-((-*p) % 1.0));
                            phase_of(&l).ok()
                        } else {
                            None
                        };
                        if p.is_finite() {
                            c11_set_phase(*p, c1, mirror.or(Some(0)), &mut fnd);
                        }
                    }
                    LfoOp::Reset => {
                        if c1 != 0 {
                            fnd.push(("C11", "reset", format!("phase counter {} after reset()", c1)));
                        }
                    }
                }
                out.obs = c1 as u64;
            }
            (_, Err(e)) | (Err(e), _) => fnd.push(("C10", "up-saw", e)),
        }
        for (p, c, d) in fnd {
            out.flag(p, c, d);
        }
    }
    fn key(&self) -> u128 {
        let mut h = Hash128::new();
        for w in self.lfo.verif_key() {
            h.word(w as u64);
        }
        h.word(self.freq.to_bits() as u64);
        h.finish()
    }
    fn fork(&self) -> Self {
        self.clone()
    }
    fn op_str(op: &LfoOp) -> String {
        match op {
            LfoOp::Tick => "tick".into(),
            LfoOp::Reset => "reset".into(),
            LfoOp::Freq(f) => format!("freq:{:?}", f),
            LfoOp::Phase(p) => format!("phase:{:?}", p),
        }
    }
}

pub fn parse_op(s: &str) -> LfoOp {
    match s {
        "tick" => LfoOp::Tick,
        "reset" => LfoOp::Reset,
        _ => {
            let (a, b) = s.split_once(':').expect("lfo op");
            match a {
                "freq" => LfoOp::Freq(parse_f32(b)),
                "phase" => LfoOp::Phase(parse_f32(b)),
                _ => panic!("unknown lfo op {}", s),
            }
        }
    }
}

pub fn replay(config: &Value, ops: &[String]) -> Vec<String> {
    let fs = config["fs"].as_f64().unwrap_or(1024.0) as f32;
    let mut m = LfoM::new(fs, vec![], vec![]);
    run_script(&mut m, ops, &parse_op, &|m: &LfoM| {
        let s = read(&m.lfo);
        format!("phase={:?} sine={:?} tri={:?} up={:?} down={:?} sq={:?}", phase_of(&m.lfo), s.sine, s.tri, s.up, s.down, s.sq)
    })
}

fn viol(prop: &'static str, class: &str, detail: String, fs: f32, ops: Vec<String>) -> Violation {
    Violation { prop, class: class.to_string(), detail, machine: "lfo", config: json!({"fs": fs}), ops }
}

/// script that places a fresh oscillator (fs = 1024) at counter c and sets increment k
fn place_script(c: u32, k: u32) -> Vec<String> {
    let mut v = Vec::new();
    if c != 0 {
        v.push(format!("freq:{:?}", if c < (1 << 22) { (c as f32 + 0.5) / 16384.0 } else { c as f32 / 16384.0 }));
        v.push("tick".to_string());
    }
    v.push(format!("freq:{:?}", inc_freq(k)));
    v
}

/// Walk all 2^24 phases with increment `k` (every start phase, hence every
/// (phase, phase+k) pair), checking C10 per state and C12 / C11 per tick.
fn walk_all(ctx: &Ctx, rep: &mut Report, k: u32, do_c10: bool, do_c12: bool, do_c11: bool, stride_quick: Option<u32>) {
    // residues: the walk with increment k from residue r visits r + j*k; gcd(k, 2^24) = g residues needed
    let g = 1u32 << k.trailing_zeros().min(24);
    let per = M24 / g; // ticks per residue class
    let total = M24 as u64; // pairs
    let shards = 256u64;
    let stride = stride_quick.unwrap_or(1) as u64;
    par_ranges(ctx, rep, total / stride, shards, |_, lo, hi, lc| {
        // global pair index i in [0, 2^24): residue = i / per, step = i % per  (stride applies to pair index)
        let mut cur: Option<(u64, Lfo, u32, Shapes)> = None;
        let mut fnd: Vec<Finding> = Vec::new();
        for ii in lo..hi {
            let i = ii * stride;
            let r = (i / per as u64) as u32;
            let j = (i % per as u64) as u32;
            let c0 = r.wrapping_add(j.wrapping_mul(k)) & (M24 - 1);
            let (mut l, c0, s0) = match cur.take() {
                Some((pi, l, c, s)) if pi + 1 == i && j != 0 => (l, c, s),
                _ => {
                    let mut l = lfo_at(c0);
                    l.set_frequency(inc_freq(k));
                    let s = read(&l);
                    (l, c0, s)
                }
            };
            let mut got0 = phase_of(&l);
            let mut s0 = s0;
            if got0 != Ok(c0) {
                // the realised increment is not k (allowed for large k): put the oscillator where this index wants it
                l = lfo_at(c0);
                l.set_frequency(inc_freq(k));
                s0 = read(&l);
                got0 = phase_of(&l);
                lc.count("walk_replacements", 1);
            }
            if got0 != Ok(c0) {
                lc.violation(viol("C10", "up-saw", format!("expected phase counter {} but the up-saw reads {:?}", c0, got0), FS0, place_script(c0, k)));
                continue;
            }
            if do_c10 {
                c10_state(c0, &s0, &mut fnd);
                lc.count("states_checked", 1);
            }
            l.tick();
            let s1 = read(&l);
            let c1 = match phase_of(&l) {
                Ok(c) => c,
                Err(e) => {
                    lc.violation(viol("C10", "up-saw", e, FS0, { let mut v = place_script(c0, k); v.push("tick".into()); v }));
                    continue;
                }
            };
            if do_c11 {
                c11_tick(FS0, inc_freq(k), c0, c1, &mut fnd);
            }
            if do_c12 {
                let (rs, rt) = c12_pair(c0, &s0, c1, &s1, &mut fnd);
                lc.maxf("max_sine_step_over_bound", rs);
                lc.maxf("max_triangle_step_over_bound", rt);
                lc.count("pairs_checked", 1);
                if c1 < c0 {
                    lc.count("pairs_across_wrap", 1);
                }
            }
            if do_c10 {
                lc.maxf("max_sine_error", (s0.sine as f64 - (2.0 * std::f64::consts::PI * c0 as f64 / M24 as f64).sin()).abs());
            }
            for (p, c, d) in fnd.drain(..) {
                let mut ops = place_script(c0, k);
                ops.push("tick".into());
                lc.violation(viol(p, c, d, FS0, ops));
            }
            cur = Some((i, l, c1, s1));
        }
    });
    rep.states += total / stride;
    rep.transitions += total / stride;
    rep.traces += total / stride;
    rep.evaluations += total / stride;
    rep.subruns.push(json!({"engine": "E2-sweep", "what": "all 2^24 phase-counter values", "increment": k, "residue_classes": g, "stride": stride, "ticks": total / stride}));
}

// ------------------------------------------------------------------ C10

pub fn c10(ctx: &Ctx) -> Report {
    let mut rep = Report::new();
    rep.rule.push("E2: the oscillator is walked through all 2^24 phase-counter values with increment 1 (fs=1024 Hz, f=2^-14 Hz) via tick(); at every state the five waveforms are read and compared with the exact reference (saws, square, triangle exact; sine within 0.0125); non-trivial = every distinct phase".into());
    walk_all(ctx, &mut rep, 1, true, false, false, None);
    rep.nontrivial = rep.counters.get("states_checked").copied().unwrap_or(0);
    // read-order independence on a sub-lattice: all 120 orders of the five shapes
    let shapes = [Waveshape::Sine, Waveshape::Triangle, Waveshape::UpSaw, Waveshape::DownSaw, Waveshape::Square];
    let mut perms: Vec<[usize; 5]> = Vec::new();
    permute(&mut [0, 1, 2, 3, 4], 0, &mut perms);
    let lattice: u64 = if ctx.tier.is_thorough() { 1 << 16 } else { 1 << 12 };
    let perms_ref = &perms;
    par_ranges(ctx, &mut rep, lattice, 64, |_, lo, hi, lc| {
        for i in lo..hi {
            let c = ((i * (M24 as u64 / lattice)) as u32 + (i as u32 % 251)) & (M24 - 1);
            let l = lfo_at(c);
            let before = l;
            let base: Vec<f32> = shapes.iter().map(|w| l.get(*w)).collect();
            for p in perms_ref {
                for &j in p {
                    let v = l.get(shapes[j]);
                    if v.to_bits() != base[j].to_bits() {
                        lc.violation(viol("C10", "read-order", format!("shape {} read {} then {} depending on the read order at phase {}", j, base[j], v, c), FS0, place_script(c, 0)));
                    }
                }
                lc.count("read_orders_checked", 1);
            }
            if l != before {
                lc.violation(viol("C10", "read-disturbs-state", format!("reading the waveforms changed the oscillator at phase {}", c), FS0, place_script(c, 0)));
            }
        }
    });
    rep.evaluations += lattice * 120;
    // every state set_phase can leave behind must satisfy the per-state oracle too
    set_phase_sweep(ctx, &mut rep, if ctx.tier.is_thorough() { 1 } else { 64 }, &["C10"]);
    rep.exhaustive = true;
    // jump away and come back: place the oscillator at a (by ticking), set_phase to b, then one or two ticks whose
    // increment brings it back to a (+ r): all five outputs must equal those of an oscillator ticked straight there
    {
        let n: u64 = if ctx.tier.is_thorough() { 512 } else { 160 };
        par_ranges(ctx, &mut rep, n * n, 1024, |_, lo, hi, lc| {
            for i in lo..hi {
                let ai = i / n;
                let bi = i % n;
                let a = ((ai * (M24 as u64) / n) as u32 + (ai as u32 * 37) % 16384) & (M24 - 1);
                let b = ((bi * (M24 as u64) / n) as u32 + (bi as u32 * 91) % 16384 + 8192) & (M24 - 1);
                for (r, two_ticks, frac) in [(0u32, false, false), (1, false, false), (4099, false, false), (0, true, false), (3, true, true)] {
                    let mut l = lfo_at(a);
                    // one extra tick at a small increment so that `a` is a state reached by ticking with history
                    let pb = b as f32 / 16777216.0;
                    l.set_phase(pb);
                    let cb = match phase_of(&l) {
                        Ok(c) => c,
                        Err(_) => continue,
                    };
                    let target = a.wrapping_add(r) & (M24 - 1);
                    let d = target.wrapping_sub(cb) & (M24 - 1);
                    let per = if two_ticks { d / 2 } else { d };
                    let f = if frac { (per as f32 + 0.5) / 16384.0 } else { per as f32 / 16384.0 };
                    l.set_frequency(f);
                    l.tick();
                    if two_ticks {
                        l.tick();
                    }
                    lc.count("jump_and_return_sequences", 1);
                    let script = || vec![format!("freq:{:?}", a as f32 / 16384.0), "tick".to_string(), format!("phase:{:?}", pb), format!("freq:{:?}", f), if two_ticks { "tick*2".to_string() } else { "tick".to_string() }];
                    let s = match std::panic::catch_unwind(std::panic::AssertUnwindSafe(|| read(&l))) {
                        Ok(s) => s,
                        Err(e) => {
                            lc.violation(viol("C10", "state-outside-cycle", format!("reading the waveforms panics: {}", panic_msg(&e)), FS0, script()));
                            continue;
                        }
                    };
                    match phase_of(&l) {
                        Ok(c) => {
                            let mut fnd: Vec<Finding> = Vec::new();
                            c10_state(c, &s, &mut fnd);
                            if !same_outputs(&s, &read(&lfo_at(c))) {
                                fnd.push(("C10", "history-dependent", format!("outputs {:?} at phase {} after a jump and return differ from those of an oscillator ticked straight there {:?}", s, c, read(&lfo_at(c)))));
                            }
                            if (c >> 14) == (a >> 14) {
                                lc.count("returns_into_the_table_cell_left_before_the_jump", 1);
                            }
                            for (p, cl, d) in fnd {
                                lc.violation(viol(p, cl, d, FS0, script()));
                            }
                        }
                        Err(e) => lc.violation(viol("C10", "state-outside-cycle", e, FS0, script())),
                    }
                }
            }
        });
        rep.evaluations += n * n * 5;
        rep.transitions += n * n * 7;
        rep.traces += n * n * 5;
        rep.require_nonzero("returns_into_the_table_cell_left_before_the_jump");
    }
    // non-integer steps landing on the last counter values: frequency (k + 2^-j) * 2^-14 Hz, start phase chosen so
    // that after 2^j ticks the truncated steps end exactly on 0xFFFFFF / 0xFFFFFE / 0x7FFFFF / 0
    {
        let mut n_cases = 0u64;
        for k in [0u32, 1, 3, 1000, 16385, 524_289] {
            for j in 1..=9u32 {
                for target in [0xFF_FFFFu32, 0xFF_FFFE, 0x7F_FFFF, 0] {
                    for extra in [0u32, 1] {
                        let n = (1u32 << j) + extra;
                        let f = (k as f64 + (0.5f64).powi(j as i32)) / 16384.0;
                        let f = f as f32;
                        let start = target.wrapping_sub(n.wrapping_mul(k)) & (M24 - 1);
                        let mut l = lfo_at(start);
                        l.set_frequency(f);
                        let mut script = place_script(start, 0);
                        script.pop();
                        script.push(format!("freq:{:?}", f));
                        for t in 0..n {
                            l.tick();
                            script.push("tick".to_string());
                            n_cases += 1;
                            let r = std::panic::catch_unwind(std::panic::AssertUnwindSafe(|| read(&l)));
                            let bad = match (&r, phase_of(&l)) {
                                (Err(e), _) => Some(format!("reading the waveforms panics: {}", panic_msg(e))),
                                (_, Err(e)) => Some(e),
                                (Ok(s), Ok(c)) => {
                                    let mut fnd: Vec<Finding> = Vec::new();
                                    c10_state(c, s, &mut fnd);
                                    fnd.first().map(|x| x.2.clone())
                                }
                            };
                            if let Some(d) = bad {
                                rep.violation(viol("C10", "state-outside-cycle", format!("after tick {} at a step of {} + 2^-{} counts: {}", t + 1, k, j, d), FS0, script.clone()));
                                break;
                            }
                        }
                    }
                }
            }
        }
        rep.count("fractional_step_landings", n_cases);
        rep.evaluations += n_cases;
        rep.transitions += n_cases;
    }
    // history independence is checked by the C11 exploration machine; run a small instance here too
    let m = LfoM::new(1000.0, vec![0.0, 1.0, 250.0, 999.0], vec![0.0, 0.25, 0.999, 0.999_999_94, -0.3, 7.5]);
    let d = if ctx.tier.is_thorough() { 7 } else { 5 };
    explore(m, &ExploreCfg { max_depth: Some(d), state_cap: 30_000_000, threads: ctx.threads, label: format!("history independence, depth {}", d) }, &mut rep, &["C10"]);
    rep.require_nonzero("states_checked");
    rep.require_nonzero("read_orders_checked");
    rep.sample(json!({"phase_counter": 4194304, "expected": {"up": -0.5, "down": 0.5, "square": 1.0, "triangle": 1.0, "sine~": 1.0}}));
    rep.sample(json!({"script": place_script(12345, 1)}));
    rep.assumptions.push("phase counter is read back from the public up-saw output ((v+1)*2^23 must be an integer), no hook".into());
    rep
}

fn permute(a: &mut [usize; 5], k: usize, out: &mut Vec<[usize; 5]>) {
    if k == 5 {
        out.push(*a);
        return;
    }
    for i in k..5 {
        a.swap(k, i);
        permute(a, k + 1, out);
        a.swap(k, i);
    }
}

// ------------------------------------------------------------------ C12

pub fn c12(ctx: &Ctx) -> Report {
    let mut rep = Report::new();
    rep.rule.push("E2: every adjacent pair of phase-counter values (increment 1, all 2^24 pairs including the wrap), then every start phase with larger increments; per tick |d sine| <= 2*pi*1.002*step + 2*2^-23 and |d triangle| <= 4*step; non-trivial = pairs checked".into());
    walk_all(ctx, &mut rep, 1, false, true, false, None);
    // increments: around every power of two (one table cell is 2^14 counts), and odd values in between
    let mut incs: Vec<u32> = vec![2, 3, 5];
    for e in 2..24u32 {
        incs.push((1 << e) - 1);
        incs.push((1 << e) + 1);
        if e >= 10 {
            incs.push((1 << e) + (1 << (e - 1)) + 7);
            incs.push((1 << e) + (1 << (e - 2)) + 3);
        }
    }
    incs.extend([16384u32, 600_001, 700_001, 800_003, 900_001, 1_000_003, 3_000_001, 5_000_011]);
    incs.sort();
    incs.dedup();
    let stride = if ctx.tier.is_thorough() { Some(3) } else { Some(61) };
    for &k in &incs {
        let full = ctx.tier.is_thorough();
        walk_all(ctx, &mut rep, k, false, true, false, if full { None } else { stride });
    }
    // start phases positioned with set_phase (not reached by ticking), then one tick at a small increment
    let nstart: u64 = if ctx.tier.is_thorough() { 1 << 22 } else { 1 << 17 };
    par_ranges(ctx, &mut rep, nstart, 256, |_, lo, hi, lc| {
        let mut fnd: Vec<Finding> = Vec::new();
        for i in lo..hi {
            let p = ((i as f64 + 0.37) / nstart as f64) as f32;
            for k in [1u32, 3] {
                let mut l = Lfo::new(FS0);
                l.set_frequency(inc_freq(k));
                l.set_phase(if i % 5 == 4 { -p } else { p });
                let (c0, s0) = match (phase_of(&l), std::panic::catch_unwind(std::panic::AssertUnwindSafe(|| read(&l)))) {
                    (Ok(c), Ok(s)) => (c, s),
                    _ => continue, // a state outside the cycle is C10 / C11's finding
                };
                l.tick();
                let s1 = read(&l);
                if let Ok(c1) = phase_of(&l) {
                    c12_pair(c0, &s0, c1, &s1, &mut fnd);
                    lc.count("pairs_checked", 1);
                    lc.count("pairs_starting_from_set_phase", 1);
                }
                for (pp, cc, d) in fnd.drain(..) {
                    lc.violation(viol(pp, &format!("{}-after-set-phase", cc), d, FS0, vec![format!("freq:{:?}", inc_freq(k)), format!("phase:{:?}", if i % 5 == 4 { -p } else { p }), "tick".into()]));
                }
            }
        }
    });
    rep.states += nstart * 2;
    rep.transitions += nstart * 2;
    rep.traces += nstart * 2;
    // histories: tick / set_frequency / set_phase / reset in any order, slope oracle on every tick
    let d = if ctx.tier.is_thorough() { 7 } else { 5 };
    let m = LfoM::new(1000.0, vec![0.0, 0.01, 1.0, 250.0], vec![0.0, 0.25, 0.5004883, 0.999, -0.3]);
    explore(m, &ExploreCfg { max_depth: Some(d), state_cap: 30_000_000, threads: ctx.threads, label: format!("tick / set_frequency / set_phase / reset histories, depth {}", d) }, &mut rep, &["C12"]);
    rep.nontrivial = rep.counters.get("pairs_checked").copied().unwrap_or(0);
    rep.require_nonzero("pairs_checked");
    rep.require_nonzero("pairs_across_wrap");
    rep.require_nonzero("pairs_starting_from_set_phase");
    rep.exhaustive = true;
    rep.sample(json!({"script": {"machine": "lfo", "config": {"fs": 1024.0}, "ops": ["freq:1023.99994", "tick", "freq:6.1035156e-5", "tick"]}, "meaning": "the step from the last phase of a cycle into the next cycle"}));
    rep.assumptions.push("all 2^24 adjacent pairs at increment 1 in both tiers; ~85 larger increments (around every power of two and in between) from every 61st start phase (quick) / from every start phase (thorough)".into());
    rep
}

// ------------------------------------------------------------------ C11

pub fn c11(ctx: &Ctx) -> Report {
    let mut rep = Report::new();
    rep.rule.push("(a) E2 over f32 bit patterns p for set_phase(p) (thorough: all 2^32; quick: every 16th pattern plus neighbourhoods of powers of two); (b) E2 over a frequency x sample-rate grid, one tick each; (c) E1 bounded-depth exploration of tick/set_frequency/set_phase/reset histories; non-trivial = finite patterns + grid points with a non-zero advance + explored transitions".into());
    // (a)
    set_phase_sweep(ctx, &mut rep, if ctx.tier.is_thorough() { 1 } else { 16 }, &["C11"]);
    rep.mark("set_phase sweep");
    // reset
    {
        let mut l = lfo_at(12345);
        l.reset();
        if phase_of(&l) != Ok(0) {
            rep.violation(viol("C11", "reset", "phase is not 0 after reset()".into(), FS0, vec!["freq:0.7534790".into(), "tick".into(), "reset".into()]));
        }
    }
    // (b)
    let rates: [f32; 14] = [100.0, 441.0, 1000.0, 8000.0, 44100.0, 48000.0, 96000.0, 192000.0, 100.5, 999.9, 12345.678, 44100.5, 47952.047, 70312.5];
    let nf: u64 = if ctx.tier.is_thorough() { 200_000 } else { 20_000 };
    par_ranges(ctx, &mut rep, rates.len() as u64 * (nf + 1 + 64), 128, |_, lo, hi, lc| {
        let mut fnd: Vec<Finding> = Vec::new();
        for i in lo..hi {
            let fs = rates[(i / (nf + 1 + 64)) as usize];
            let j = i % (nf + 1 + 64);
            let f = if j <= nf {
                (j as f64 / nf as f64 * fs as f64) as f32
            } else {
                // special values: fs/2^24 multiples, tiny, just below fs
                let s = j - nf - 1;
                match s {
                    0 => fs / 16777216.0,
                    1 => f32::from_bits(1),
                    2 => f32::MIN_POSITIVE,
                    3 => f32::from_bits(fs.to_bits() - 1),
                    4 => fs / 2.0,
                    5 => fs / 3.0,
                    _ => fs / 16777216.0 * (s as f32) * 0.37,
                }
            };
            let f = f.min(fs);
            for start in [0u32, 1, M24 / 2 - 1, M24 - 1, 0x00ab_cdef] {
                let mut l = Lfo::new(fs);
                if start != 0 {
                    // place: set increment = start by frequency start*fs/2^24 (exact for fs a small integer? not always) -> use set_phase and read back
                    l.set_phase(start as f32 / 16777216.0);
                }
                let c0 = match phase_of(&l) {
                    Ok(c) => c,
                    Err(_) => continue,
                };
                l.set_frequency(f);
                l.tick();
                let c1 = match phase_of(&l) {
                    Ok(c) => c,
                    Err(e) => {
                        lc.violation(viol("C10", "up-saw", e, fs, vec![format!("phase:{:?}", start as f32 / 16777216.0), format!("freq:{:?}", f), "tick".into()]));
                        continue;
                    }
                };
                let diff = c11_tick(fs, f, c0, c1, &mut fnd);
                lc.maxf("max_tick_shortfall_counts", -diff);
                lc.maxf("max_tick_excess_counts", diff);
                lc.count("grid_ticks", 1);
                if c1 != c0 {
                    lc.count("grid_ticks_nonzero_advance", 1);
                }
                // a second tick must advance by the same amount (frequency persists)
                l.tick();
                if let Ok(c2) = phase_of(&l) {
                    if c2.wrapping_sub(c1) & (M24 - 1) != c1.wrapping_sub(c0) & (M24 - 1) {
                        fnd.push(("C11", "uneven-ticks", format!("two consecutive ticks at f={} fs={} advanced by different amounts ({} -> {} -> {})", f, fs, c0, c1, c2)));
                    }
                }
                for (p, c, d) in fnd.drain(..) {
                    lc.violation(viol(p, c, d, fs, vec![format!("phase:{:?}", start as f32 / 16777216.0), format!("freq:{:?}", f), "tick".into(), "tick".into()]));
                }
            }
            // a frequency change takes effect from the next tick, however small the change: neighbours of f within
            // a fraction of one counter step and within a few ulps, and a creeping chain of such changes
            let step = fs / 16777216.0;
            let mut l = Lfo::new(fs);
            l.set_frequency(f);
            l.tick();
            let mut script = vec![format!("freq:{:?}", f), "tick".to_string()];
            let mut cur = f;
            for (k, delta) in [0.4f32, -0.8, 0.3, 0.3, 0.3, 0.3, -0.45, 0.9, -0.999, 0.999].iter().enumerate() {
                let mut g = cur + delta * step;
                if k % 3 == 2 {
                    g = f32::from_bits(cur.to_bits().wrapping_add(1));
                }
                if !(g >= 0.0 && g <= fs) || g == cur {
                    continue;
                }
                let c0 = match phase_of(&l) {
                    Ok(c) => c,
                    Err(_) => break,
                };
                l.set_frequency(g);
                l.tick();
                script.push(format!("freq:{:?}", g));
                script.push("tick".to_string());
                let c1 = match phase_of(&l) {
                    Ok(c) => c,
                    Err(_) => break,
                };
                c11_tick(fs, g, c0, c1, &mut fnd);
                lc.count("small_frequency_changes", 1);
                let i0 = (cur as f64 / fs as f64 * M24 as f64).floor();
                let i1 = (g as f64 / fs as f64 * M24 as f64).floor();
                if i0 != i1 {
                    lc.count("small_frequency_changes_crossing_a_counter_step", 1);
                }
                if !fnd.is_empty() {
                    for (p, _c, d) in fnd.drain(..) {
                        lc.violation(viol(p, "small-frequency-change-ignored", d, fs, script.clone()));
                    }
                    break;
                }
                cur = g;
            }
        }
    });
    rep.evaluations += rates.len() as u64 * (nf + 65) * 5;
    rep.subruns.push(json!({"engine": "E2-sweep", "what": "frequency x sample-rate grid, one tick from 5 start phases", "rates": rates, "frequencies_per_rate": nf + 65}));
    // every integer sample rate in [100, 192000]: one tick at five frequencies, from two start phases
    {
        let stride: u64 = if ctx.tier.is_thorough() { 1 } else { 5 };
        let n = (192_000 - 100) / stride + 1;
        par_ranges(ctx, &mut rep, n, 512, |_, lo, hi, lc| {
            let mut fnd: Vec<Finding> = Vec::new();
            for i in lo..hi {
                let fs = (100 + i * stride) as f32;
                for f in [fs / 16777216.0 * 3.5, 0.1, 1.0, fs * 0.123_456, fs * 0.999_99] {
                    for start in [0.0f32, 0.75] {
                        let mut l = Lfo::new(fs);
                        l.set_phase(start);
                        l.set_frequency(f);
                        let c0 = match phase_of(&l) {
                            Ok(c) => c,
                            Err(_) => continue,
                        };
                        l.tick();
                        if let Ok(c1) = phase_of(&l) {
                            c11_tick(fs, f, c0, c1, &mut fnd);
                            lc.count("integer_rate_ticks", 1);
                        }
                        for (p, c, d) in fnd.drain(..) {
                            lc.violation(viol(p, c, d, fs, vec![format!("phase:{:?}", start), format!("freq:{:?}", f), "tick".into()]));
                        }
                    }
                }
            }
        });
        rep.evaluations += n * 10;
        rep.transitions += n * 10;
    }
    // the destination of a tick for every start phase (every 64th in the quick tier) at small, odd and large increments
    for k in [1u32, 3, 1000, 16_385, 524_289, 4_194_303] {
        walk_all(ctx, &mut rep, k, false, false, true, if ctx.tier.is_thorough() { Some(4) } else { Some(64) });
    }
    long_runs(ctx, &mut rep, "C11");
    rep.mark("frequency grid");
    // (c)
    for (fs, d) in [(1000.0f32, if ctx.tier.is_thorough() { 9 } else { 6 }), (192000.0, if ctx.tier.is_thorough() { 8 } else { 5 })] {
        let m = LfoM::new(fs, vec![0.0, 1.0, fs / 16777216.0, fs / 4.0, fs * 0.999, fs, fs / 16777216.0 * 1000.7, fs / 16777216.0 * 1001.2], vec![0.0, 0.25, 0.999_999_9, 0.999_999_94, -0.3, 7.5, -1.0e10]);
        explore(m, &ExploreCfg { max_depth: Some(d), state_cap: 50_000_000, threads: ctx.threads, label: format!("lfo histories fs={} depth {}", fs, d) }, &mut rep, &["C11"]);
    }
    rep.mark("history exploration");
    if ctx.tier.is_thorough() {
        key_selfcheck(LfoM::new(1000.0, vec![0.0, 1.0, 250.0], vec![0.0, 0.25, -0.3]), 200_000, &mut rep, "lfo history machine");
    }
    rep.mark("key self-check");
    rep.nontrivial = rep.counters.get("finite_patterns").copied().unwrap_or(0) + rep.counters.get("grid_ticks_nonzero_advance").copied().unwrap_or(0) + rep.counters.get("ticks").copied().unwrap_or(0);
    rep.require_nonzero("finite_patterns");
    rep.require_nonzero("negative_patterns");
    rep.require_nonzero("grid_ticks_nonzero_advance");
    rep.require_nonzero("freq_changes");
    rep.require_nonzero("small_frequency_changes_crossing_a_counter_step");
    rep.require_nonzero("integer_rate_ticks");
    rep.require_nonzero("long_run_ticks");
    rep.sample(json!({"set_phase_bits": "0x3e800000", "p": 0.25, "expected_counter": 4194304}));
    rep.sample(json!({"set_phase_bits": "0xc0f00000", "p": -7.5, "compared_with": "set_phase(-0.5)"}));
    rep.assumptions.push("phase counter read back from the up-saw output".into());
    rep
}

fn set_phase_case(bits: u32, l: &mut Lfo, l2: &mut Lfo, lc: &mut LocalCounts, fnd: &mut Vec<Finding>, props: &[&'static str]) {
    let p = f32::from_bits(bits);
    if !p.is_finite() {
        lc.count("nonfinite_patterns_skipped", 1);
        return;
    }
    lc.count("finite_patterns", 1);
    l.set_phase(p);
    let script = || vec![format!("phase:0x{:08x}", bits)];
    // reading the waveforms in the state set_phase leaves behind must not panic
    let shapes = std::panic::catch_unwind(std::panic::AssertUnwindSafe(|| read(l)));
    let s = match shapes {
        Ok(s) => s,
        Err(e) => {
            for pr in props {
                lc.violation(viol(pr, "state-outside-cycle", format!("after set_phase({:?}) reading the waveforms panics: {}", p, panic_msg(&e)), 48000.0, script()));
            }
            *l = Lfo::new(48000.0);
            return;
        }
    };
    let c = match phase_of(l) {
        Ok(c) => c,
        Err(e) => {
            if props.contains(&"C11") {
                lc.violation(viol("C11", "set-phase-range", format!("after set_phase({:?}): {}", p, e), 48000.0, script()));
            }
            if props.contains(&"C10") {
                lc.violation(viol("C10", "state-outside-cycle", format!("after set_phase({:?}): {}", p, e), 48000.0, script()));
            }
            return;
        }
    };
    if props.contains(&"C10") {
        c10_state(c, &s, fnd);
        if !same_outputs(&s, &read(&lfo_at(c))) {
            fnd.push(("C10", "history-dependent", format!("outputs {:?} after set_phase({:?}) differ from those of an oscillator ticked to the same phase {}", s, p, c)));
        }
    }
    if props.contains(&"C11") {
        let mirror = if p < 0.0 {
            lc.count("negative_patterns", 1);
            l2.set_phase(-((-p) % 1.0));
            phase_of(l2).ok()
        } else {
            None
        };
        let e = c11_set_phase(p, c, mirror.or(Some(0)), fnd);
        lc.maxf("max_set_phase_error_cycles", e);
    }
    for (pp, cc, d) in fnd.drain(..) {
        if props.contains(&pp) {
            lc.violation(viol(pp, cc, d, 48000.0, script()));
        }
    }
}

/// set_phase over f32 bit patterns (stride 1 = all 2^32), plus the neighbourhoods of every power of two
pub fn set_phase_sweep(ctx: &Ctx, rep: &mut Report, stride: u64, props: &[&'static str]) {
    let n = (1u64 << 32) / stride;
    let pv: Vec<&'static str> = props.to_vec();
    let pr = &pv;
    par_ranges(ctx, rep, n, 1024, |_, lo, hi, lc| {
        let mut l = Lfo::new(48000.0);
        let mut l2 = Lfo::new(48000.0);
        let mut fnd: Vec<Finding> = Vec::new();
        for i in lo..hi {
            let bits = (i * stride) as u32;
            set_phase_case(bits, &mut l, &mut l2, lc, &mut fnd, pr);
        }
    });
    if stride != 1 {
        // neighbourhoods: every exponent boundary +- 64 patterns, both signs
        let mut pats: Vec<u32> = Vec::new();
        for e in 0..256u32 {
            for d in -64i64..=64 {
                let b = ((e as i64) << 23) + d;
                if b >= 0 && b < (1i64 << 31) {
                    pats.push(b as u32);
                    pats.push(b as u32 | 0x8000_0000);
                }
            }
        }
        let patr = &pats;
        par_ranges(ctx, rep, pats.len() as u64, 64, |_, lo, hi, lc| {
            let mut l = Lfo::new(48000.0);
            let mut l2 = Lfo::new(48000.0);
            let mut fnd: Vec<Finding> = Vec::new();
            for i in lo..hi {
                set_phase_case(patr[i as usize], &mut l, &mut l2, lc, &mut fnd, pr);
            }
        });
        rep.exhaustive = false;
    }
    rep.evaluations += n;
    rep.subruns.push(json!({"engine": "E2-sweep", "what": "set_phase over f32 bit patterns", "patterns": n, "stride": stride}));
}

/// long runs: more ticks than a 16-bit (quick) / 32-bit (thorough) counter can hold at a large odd increment and at
/// an inexact one, and more than 2^16 (thorough: 2^32) cycle wraps (f = fs, f = fs/2). Every 2^16 ticks and around
/// ticks 2^16 and 2^17 the advance since the last look is compared with the statement's per-tick bounds summed over
/// those ticks (not faster than the request by more than rounding, not slower by more than rounding plus one step per
/// tick); a panic is a violation. The runs execute in parallel, one thread each.
pub fn long_runs(ctx: &Ctx, rep: &mut Report, prop: &'static str) {
    let thorough = ctx.tier.is_thorough();
    let total: u64 = if thorough { (1u64 << 32) + 70_000 } else { (1u64 << 25) + 70_000 };
    let wraps: u64 = if thorough { (1u64 << 32) + 70_000 } else { 140_000 };
    // (requested counts per tick, ticks)
    let runs: Vec<(f32, u64)> = vec![(1_234_567.0, total), (M24 as f32, wraps), ((M24 / 2) as f32, 280_000), (1_234_567.4, (1u64 << 21) + 70_000), (0.75, 200_000), (16_385.5, 200_000)];
    let check_drift = prop == "C11";
    let results: Vec<(f32, u64, std::thread::Result<Option<(u64, String)>>)> = std::thread::scope(|sc| {
        let hs: Vec<_> = runs
            .iter()
            .map(|&(x, n)| {
                sc.spawn(move || {
                    let r = std::panic::catch_unwind(move || {
                        let mut l = Lfo::new(FS0);
                        l.set_frequency(x / 16384.0);
                        let xr = (x / 16384.0) as f64 * 16384.0; // the request as the oscillator sees it
                        let rr = xr * (2.0f64).powi(-23) + 1e-9;
                        let mut last_t: u64 = 0;
                        let mut last_c: u32 = 0;
                        for t in 1..=n {
                            l.tick();
                            if t % 65536 == 0 || t == n || (t > 65530 && t < 65545) || (t > 131060 && t < 131080) {
                                let _ = read(&l);
                                if !check_drift {
                                    continue;
                                }
                                let c = match phase_of(&l) {
                                    Ok(c) => c,
                                    Err(e) => return Some((t, e)),
                                };
                                let m = (t - last_t) as f64;
                                let lo = m * (xr - 1.0 - rr).max(0.0);
                                let hi = m * (xr + rr);
                                if hi - lo < M24 as f64 {
                                    let d = (c.wrapping_sub(last_c) & (M24 - 1)) as f64;
                                    let off = (d - lo).rem_euclid(M24 as f64);
                                    if off > hi - lo + 1e-6 && off < M24 as f64 - 1e-6 {
                                        return Some((t, format!("over the last {} ticks the phase counter moved from {} to {} (by {} modulo 2^24); the requested {} counts per tick allow {:.3}..{:.3}", m, last_c, c, d, xr, lo, hi)));
                                    }
                                }
                                last_t = t;
                                last_c = c;
                            }
                        }
                        None
                    });
                    (x, n, r)
                })
            })
            .collect();
        hs.into_iter().map(|h| h.join().expect("long-run thread")).collect()
    });
    for (x, n, r) in results {
        match r {
            Ok(None) => {}
            Ok(Some((t, what))) => rep.violation(viol(prop, "drift-in-a-long-run", format!("after {} ticks at {} counts per tick: {}", t, x, what), FS0, vec![format!("freq:{:?}", x / 16384.0), format!("tick*{}", t)])),
            Err(e) => rep.violation(viol(prop, "panic-in-a-long-run", format!("the real code panicked during {} ticks at {} counts per tick ({} cycle wraps): {}", n, x, ((n as f64 * x as f64) / M24 as f64) as u64, panic_msg(&e)), FS0, vec![format!("freq:{:?}", x / 16384.0), format!("tick*{}", n)])),
        }
        rep.count("long_run_ticks", n);
        rep.evaluations += n;
        rep.transitions += n;
    }
}
