//! Ribbon controller: C15 (press detection), C16 (position value)

use crate::common::*;
use crate::explore::*;
use serde_json::{json, Value};
use synth_utils::ribbon_controller::{sample_rate_to_capacity, RibbonController};

pub type Finding = (&'static str, &'static str, String);

#[derive(Clone, Copy, Debug, PartialEq)]
pub enum ROp {
    Poll(f32),
    JustPressed,
    JustReleased,
}

#[derive(Clone, Copy, Debug)]
pub struct RibCfg {
    pub fs: u32,
    pub softpot: f32,
    pub dropper: f32,
    pub pullup: f32,
}

impl RibCfg {
    pub fn boundary(&self) -> f32 {
        1.0 - (self.dropper / (self.dropper + self.softpot))
    }
    pub fn k(&self) -> f64 {
        (self.softpot as f64 + self.dropper as f64) / self.pullup as f64
    }
}

/// reference model: run length of consecutive in-range samples and two latches
#[derive(Clone, Debug)]
pub struct RModel {
    pub l: usize, // samples an unbroken run needs before a press is reported (calibrated on a fresh controller)
    pub run: Vec<f32>, // in-range samples of the current run (kept up to l + capacity)
    pub run_len: usize,
    pub pressing: bool,
    pub just_pressed: bool,
    pub just_released: bool,
    /// upper bounds on the reports still owed (an implementation may report every unread change, not only the last)
    pub owed_pressed: u8,
    pub owed_released: u8,
    pub last_value_bits: u32,
    pub prev_run_len: usize, // length of the previous (ended) run
    pub tap_before: bool, // a run shorter than l ended since the last press
    pub presses: u32,
}

pub struct RibM<const C: usize> {
    pub cfg: RibCfg,
    pub rib: RibbonController<C>,
    pub hist: Vec<ROp>,
    pub m: RModel,
    pub levels: std::sync::Arc<Vec<f32>>,
    pub do_value: bool,
    pub deep_value: bool,
    pub max_presses: u32,
    pub edge_polls: bool,
    /// how many of the newest samples of the window do not contribute to value() (found behaviourally)
    pub excluded: usize,
}

const OWED_CAP: u8 = 3;

/// "true exactly once per change": `latch` is the latch reading (a change not yet read is reported by the next read,
/// several unread changes merge), `owed` the counting reading (every change is reported by one read). Both are
/// accepted: true needs at least one change owed, false needs the latch to be clear or already served; after a
/// false nothing is owed any more.
fn edge_read(got: bool, latch: &mut bool, owed: &mut u8, name: &'static str, call: &str, fnd: &mut Vec<Finding>, out: &mut StepOut) {
    out.count("edge_polls");
    if *latch {
        out.count("edge_polls_expected_true");
    }
    if got {
        if *owed == 0 {
            fnd.push(("C15", if name == "just-pressed" { "spurious-just-pressed" } else { "spurious-just-released" }, format!("{} returned true although every change of finger_is_pressing() has already been reported", call)));
        } else if *owed < OWED_CAP {
            *owed -= 1;
        }
        *latch = false;
    } else {
        if *latch {
            fnd.push(("C15", if name == "just-pressed" { "missing-just-pressed" } else { "missing-just-released" }, format!("{} returned false although finger_is_pressing() changed since the last read", call)));
        }
        *latch = false;
        *owed = 0;
    }
}

fn mk<const C: usize>(cfg: &RibCfg) -> RibbonController<C> {
    RibbonController::<C>::new(cfg.fs as f32, cfg.softpot, cfg.dropper, cfg.pullup)
}

/// The finger-lift allowance in samples, found behaviourally on a correctly sized controller: the largest j such that
/// replacing the newest j samples of a just-completed capture leaves value() unchanged (binary search; the statement
/// fixes neither the count nor a rounding direction). Cached per (capacity, configuration).
pub fn excluded_newest<const C: usize>(cfg: &RibCfg, l: usize) -> usize {
    use std::collections::HashMap;
    use std::sync::{Mutex, OnceLock};
    static CACHE: OnceLock<Mutex<HashMap<(usize, u32, u32, u32, u32), usize>>> = OnceLock::new();
    let key = (C, cfg.fs, cfg.softpot.to_bits(), cfg.dropper.to_bits(), cfg.pullup.to_bits());
    if let Some(d) = CACHE.get_or_init(|| Mutex::new(HashMap::new())).lock().unwrap().get(&key) {
        return *d;
    }
    let b = cfg.boundary();
    let value_with = |j: usize| -> u32 {
        let mut r = mk::<C>(cfg);
        for i in 0..l {
            r.poll(if i + j >= l { 0.7 * b } else { 0.3 * b });
        }
        r.value().to_bits()
    };
    let v0 = value_with(0);
    let (mut lo, mut hi) = (0usize, C.saturating_sub(1)); // invariant: value_with(lo) == v0
    if value_with(hi) == v0 {
        lo = hi;
    }
    while lo < hi {
        let mid = (lo + hi + 1) / 2;
        if value_with(mid) == v0 {
            lo = mid;
        } else {
            hi = mid - 1;
        }
    }
    CACHE.get().unwrap().lock().unwrap().insert(key, lo);
    lo
}

/// number of in-range samples a fresh controller needs before it reports a press
pub fn calibrate<const C: usize>(cfg: &RibCfg) -> Option<usize> {
    let mut r = mk::<C>(cfg);
    for i in 1..=(4 * C + 64) {
        r.poll(0.4);
        if r.finger_is_pressing() {
            return Some(i);
        }
    }
    None
}

impl<const C: usize> RibM<C> {
    pub fn new(cfg: RibCfg, levels: Vec<f32>, do_value: bool, deep_value: bool, max_presses: u32) -> Result<Self, String> {
        let l = calibrate::<C>(&cfg).ok_or_else(|| format!("a fresh controller at {} Hz never reports a press", cfg.fs))?;
        let rib = mk::<C>(&cfg);
        let v0 = rib.value().to_bits();
        Ok(RibM {
            cfg,
            rib,
            hist: Vec::new(),
            m: RModel { l, run: Vec::new(), run_len: 0, pressing: false, just_pressed: false, just_released: false, owed_pressed: 0, owed_released: 0, last_value_bits: v0, prev_run_len: 0, tap_before: false, presses: 0 },
            levels: std::sync::Arc::new(levels),
            do_value,
            deep_value,
            max_presses,
            edge_polls: !do_value,
            excluded: excluded_newest::<C>(&cfg, l),
        })
    }
    fn discard(&self) -> usize {
        self.excluded
    }
    /// value of a fresh controller fed only `settle` neutral samples and then `window`
    fn canonical_value(&self, window: &[f32]) -> f32 {
        let mut r = mk::<C>(&self.cfg);
        for _ in 0..(self.m.l - C) {
            r.poll(0.5 * self.cfg.boundary());
        }
        for s in window {
            r.poll(*s);
        }
        r.value()
    }
    fn check_value(&self, fnd: &mut Vec<Finding>, out: &mut StepOut) {
        let b = self.cfg.boundary() as f64;
        let v = self.rib.value();
        if self.m.run.len() < C || self.m.l < C {
            return; // capture shorter than the buffer: already reported by C15's calibration check
        }
        let window: Vec<f32> = self.m.run[self.m.run.len() - C..].to_vec();
        let ntake = C - self.discard();
        let contrib = &window[..ntake];
        let mean = contrib.iter().map(|x| *x as f64).sum::<f64>() / ntake as f64;
        let k = self.cfg.k();
        let c = |m: f64| m - (m - m * m) * k;
        let mn = contrib.iter().cloned().fold(f32::INFINITY, f32::min) as f64;
        let mx = contrib.iter().cloned().fold(f32::NEG_INFINITY, f32::max) as f64;
        // rounding of a sum of C non-negative terms is relative to the sum: (C + 8) * 2^-23 of the largest contributor,
        // with an absolute floor of 2^-22 (room for a fixed-point accumulator)
        let tau = ((C as f64 + 8.0) * f32::EPSILON as f64 * mx.abs()).max((2.0f64).powi(-22));
        let vf = v as f64;
        out.count("values_checked_while_pressed");
        if !(vf >= 0.0 && vf <= 1.0) {
            fnd.push(("C16", "value-range", format!("value() = {:?} outside [0, 1]", v)));
        }
        if !(vf * b >= c(mn) - tau && vf * b <= c(mx) + tau) {
            fnd.push(("C16", "value-outside-min-max", format!("value()*boundary = {} not between the corrected minimum {} and maximum {} of the contributing samples {:?}", vf * b, c(mn), c(mx), contrib)));
        }
        let reference = c(mean) / b;
        if !((vf - reference).abs() <= tau) {
            fnd.push(("C16", "value-not-mean", format!("value() = {:?} but the corrected, rescaled mean of the contributing samples {:?} is {}", v, contrib, reference)));
        }
        if mn != mx {
            out.count("values_checked_with_mixed_contributors");
        }
        // differential: a fresh controller that saw only this window (newest `discard` samples replaced) must agree bit for bit
        let mut w2 = window.clone();
        for s in w2[ntake..].iter_mut() {
            *s = 0.25 * self.cfg.boundary();
        }
        let cv = self.canonical_value(&w2);
        if cv.to_bits() != v.to_bits() {
            // a difference within the summation tolerance is rounding (another summation order, a running sum), not a
            // dependence on other samples
            if (cv as f64 - v as f64).abs() <= tau {
                out.count("values_differing_from_a_fresh_controller_by_rounding_only");
            } else {
                let earlier = self.m.presses > 1 || self.m.prev_run_len > 0;
                fnd.push(("C16", if earlier { "depends-on-earlier-samples" } else { "depends-on-excluded-samples" }, format!("value() = {:?}, but a fresh controller fed only the contributing samples {:?} of this press reports {:?}", v, contrib, cv)));
            }
        }
        if self.deep_value {
            // monotone: raising one contributing sample never lowers the value
            let top = self.levels.iter().cloned().filter(|l| *l < self.cfg.boundary()).fold(f32::NEG_INFINITY, f32::max);
            for i in 0..ntake {
                if w2[i] < top {
                    let mut w3 = w2.clone();
                    w3[i] = top;
                    let v3 = self.canonical_value(&w3);
                    out.count("monotonicity_comparisons");
                    if v3 < cv {
                        fnd.push(("C16", "not-monotone", format!("raising contributing sample #{} from {:?} to {:?} lowered the value from {:?} to {:?}", i, w2[i], top, cv, v3)));
                    }
                }
            }
        }
    }
}

impl<const C: usize> Machine for RibM<C> {
    type Op = ROp;
    const NAME: &'static str = "ribbon";
    fn config(&self) -> Value {
        json!({"fs": self.cfg.fs, "softpot": self.cfg.softpot, "dropper": self.cfg.dropper, "pullup": self.cfg.pullup, "capacity": C})
    }
    fn ops(&self, out: &mut Vec<ROp>) {
        for l in self.levels.iter() {
            // bound the exploration: after max_presses presses only out-of-range samples continue
            if self.m.presses >= self.max_presses && !self.m.pressing && *l < self.cfg.boundary() && self.m.run_len + 1 >= self.m.l {
                continue;
            }
            out.push(ROp::Poll(*l));
        }
        if self.edge_polls {
            out.push(ROp::JustPressed);
            out.push(ROp::JustReleased);
        }
    }
    fn apply(&mut self, op: &ROp, out: &mut StepOut) {
        let mut fnd: Vec<Finding> = Vec::new();
        self.hist.push(*op);
        match *op {
            ROp::Poll(x) => {
                self.rib.poll(x);
                let inr = x < self.cfg.boundary();
                let was = self.m.pressing;
                if inr {
                    self.m.run_len += 1;
                    self.m.run.push(x);
                    let keep = self.m.l + C;
                    if self.m.run.len() > keep {
                        let d = self.m.run.len() - keep;
                        self.m.run.drain(..d);
                    }
                    if self.m.run_len > self.m.l + C + 1 {
                        self.m.run_len = self.m.l + C + 1; // saturate: once the buffer holds only this run, longer runs are indistinguishable
                    }
                } else {
                    if self.m.run_len > 0 {
                        self.m.prev_run_len = self.m.run_len;
                        if self.m.run_len < self.m.l {
                            self.m.tap_before = true;
                        }
                    }
                    self.m.run_len = 0;
                    self.m.run.clear();
                }
                self.m.pressing = self.m.run_len >= self.m.l;
                if self.m.pressing && !was {
                    self.m.just_pressed = true;
                    self.m.owed_pressed = (self.m.owed_pressed + 1).min(OWED_CAP);
                    self.m.presses += 1;
                    out.count("presses_expected");
                    if self.m.tap_before {
                        out.count("presses_following_a_tap_shorter_than_the_capture_time");
                    }
                    self.m.tap_before = false;
                }
                if !self.m.pressing && was {
                    self.m.just_released = true;
                    self.m.owed_released = (self.m.owed_released + 1).min(OWED_CAP);
                    out.count("releases_expected");
                }
                let got = self.rib.finger_is_pressing();
                if got != self.m.pressing {
                    if got {
                        let class = if self.m.prev_run_len > 0 { "press-after-interrupted-run" } else { "press-too-early" };
                        fnd.push(("C15", class, format!("finger_is_pressing() is true after an unbroken run of only {} in-range samples ({} needed); the previous run had {}", self.m.run_len, self.m.l, self.m.prev_run_len)));
                    } else if inr {
                        fnd.push(("C15", "press-too-late", format!("finger_is_pressing() is false after an unbroken run of {} in-range samples ({} needed)", self.m.run_len, self.m.l)));
                    } else {
                        fnd.push(("C15", "release-missed", "finger_is_pressing() is true after an out-of-range sample".to_string()));
                    }
                }
                if self.do_value {
                    if self.m.pressing && got {
                        self.check_value(&mut fnd, out);
                        self.m.last_value_bits = self.rib.value().to_bits();
                    } else if !self.m.pressing {
                        out.count("values_checked_while_lifted");
                        if self.rib.value().to_bits() != self.m.last_value_bits {
                            let class = if got { "value-of-a-press-that-should-not-exist" } else { "value-changed-while-lifted" };
                            fnd.push(("C16", class, format!("value() changed from {:?} to {:?} while no press is reported", f32::from_bits(self.m.last_value_bits), self.rib.value())));
                            self.m.last_value_bits = self.rib.value().to_bits();
                        }
                    }
                }
            }
            ROp::JustPressed => {
                let got = self.rib.finger_just_pressed();
                edge_read(got, &mut self.m.just_pressed, &mut self.m.owed_pressed, "just-pressed", "finger_just_pressed()", &mut fnd, out);
            }
            ROp::JustReleased => {
                let got = self.rib.finger_just_released();
                edge_read(got, &mut self.m.just_released, &mut self.m.owed_released, "just-released", "finger_just_released()", &mut fnd, out);
            }
        }
        out.obs = (self.rib.finger_is_pressing() as u64) << 32 | self.rib.value().to_bits() as u64;
        for (p, c, d) in fnd {
            out.flag(p, c, d);
        }
    }
    fn key(&self) -> u128 {
        let s = self.rib.verif_snapshot();
        let mut h = Hash128::new();
        h.word(s.current_val.to_bits() as u64);
        h.word((s.finger_is_pressing as u64) | (s.finger_just_pressed as u64) << 1 | (s.finger_just_released as u64) << 2);
        h.word(s.num_samples_received as u64);
        h.word(s.num_samples_written as u64);
        h.word(s.buff_len as u64);
        // the buffer enters the key in oldest-first order only: the controller touches it solely through write(),
        // capacity() and oldest_ordered(), all invariant under rotation of the storage, and the storage position of
        // the next write is not observable (with raw order in the key, equal keys had different successors)
        for i in 0..s.buff_len.min(C) {
            h.word(s.buff_oldest_first[i].to_bits() as u64);
        }
        // model
        h.word(self.m.run_len as u64);
        h.word((self.m.pressing as u64) | (self.m.just_pressed as u64) << 1 | (self.m.just_released as u64) << 2 | (self.m.presses.min(self.max_presses) as u64) << 8 | (self.m.owed_pressed as u64) << 40 | (self.m.owed_released as u64) << 48);
        h.word(self.m.last_value_bits as u64);
        h.word(self.m.tap_before as u64);
        if self.do_value {
            for x in &self.m.run[self.m.run.len().saturating_sub(C)..] {
                h.word(x.to_bits() as u64);
            }
        }
        h.finish()
    }
    fn fork(&self) -> Self {
        // the controller cannot be copied: rebuild it by replaying the history on a fresh one
        let mut rib = mk::<C>(&self.cfg);
        for op in &self.hist {
            match *op {
                ROp::Poll(x) => rib.poll(x),
                ROp::JustPressed => {
                    rib.finger_just_pressed();
                }
                ROp::JustReleased => {
                    rib.finger_just_released();
                }
            }
        }
        RibM { cfg: self.cfg, rib, hist: self.hist.clone(), m: self.m.clone(), levels: self.levels.clone(), do_value: self.do_value, deep_value: self.deep_value, max_presses: self.max_presses, edge_polls: self.edge_polls, excluded: self.excluded }
    }
    fn op_str(op: &ROp) -> String {
        match op {
            ROp::Poll(x) => format!("poll:{:?}", x),
            ROp::JustPressed => "just_pressed".into(),
            ROp::JustReleased => "just_released".into(),
        }
    }
}

fn replay_long<const C: usize>(cfg: RibCfg, polls: usize, with_value: bool) -> Vec<String> {
    let mut m = match RibM::<C>::new(cfg, vec![], with_value, false, u32::MAX) {
        Ok(m) => m,
        Err(e) => return vec![e],
    };
    m.edge_polls = !with_value;
    let b = cfg.boundary();
    let mut lines = Vec::new();
    for i in 0..polls {
        let x = long_press_sample(i, b);
        let mut seq = vec![ROp::Poll(x)];
        if !with_value {
            seq.push(ROp::JustPressed);
            if i % 3 == 0 {
                seq.push(ROp::JustReleased);
            }
        }
        m.do_value = with_value && i + 3 >= polls;
        for op in seq {
            let mut out = StepOut::new();
            let r = std::panic::catch_unwind(std::panic::AssertUnwindSafe(|| m.apply(&op, &mut out)));
            if !m.do_value && with_value && m.m.pressing {
                m.m.last_value_bits = m.rib.value().to_bits();
            }
            if !out.flags.is_empty() || r.is_err() || i + 2 >= polls || i < 2 {
                let mut l = format!("poll #{:<6} {:<22} -> pressing={} value={:?}", i + 1, RibM::<C>::op_str(&op), m.rib.finger_is_pressing(), m.rib.value());
                if let Err(e) = &r {
                    l.push_str(&format!("  PANIC: {}", panic_msg(e)));
                }
                for f in &out.flags {
                    l.push_str(&format!("\n        !! {} [{}] {}", f.prop, f.class, f.detail));
                }
                lines.push(l);
            }
        }
    }
    lines
}

pub fn parse_op(s: &str) -> ROp {
    match s {
        "just_pressed" => ROp::JustPressed,
        "just_released" => ROp::JustReleased,
        _ => ROp::Poll(parse_f32(s.strip_prefix("poll:").expect("ribbon op"))),
    }
}

macro_rules! with_capacity {
    ($fs:expr, $f:ident, $($args:expr),*) => {
        match $fs {
            100 => $f::<{ sample_rate_to_capacity(100) }>($($args),*),
            334 => $f::<{ sample_rate_to_capacity(334) }>($($args),*),
            500 => $f::<{ sample_rate_to_capacity(500) }>($($args),*),
            1000 => $f::<{ sample_rate_to_capacity(1000) }>($($args),*),
            2000 => $f::<{ sample_rate_to_capacity(2000) }>($($args),*),
            10000 => $f::<{ sample_rate_to_capacity(10000) }>($($args),*),
            4000 => $f::<{ sample_rate_to_capacity(4000) }>($($args),*),
            8000 => $f::<{ sample_rate_to_capacity(8000) }>($($args),*),
            3500 => $f::<{ sample_rate_to_capacity(3500) }>($($args),*),
            22050 => $f::<{ sample_rate_to_capacity(22050) }>($($args),*),
            96000 => $f::<{ sample_rate_to_capacity(96000) }>($($args),*),
            48000 => $f::<{ sample_rate_to_capacity(48000) }>($($args),*),
            192000 => $f::<{ sample_rate_to_capacity(192000) }>($($args),*),
            17000 => $f::<{ sample_rate_to_capacity(17000) }>($($args),*),
            17067 => $f::<{ sample_rate_to_capacity(17067) }>($($args),*),
            32000 => $f::<{ sample_rate_to_capacity(32000) }>($($args),*),
            44100 => $f::<{ sample_rate_to_capacity(44100) }>($($args),*),
            64000 => $f::<{ sample_rate_to_capacity(64000) }>($($args),*),
            _ => panic!("unsupported ribbon sample rate {}", $fs),
        }
    };
}

fn replay_c<const C: usize>(cfg: RibCfg, ops: &[String]) -> Vec<String> {
    let mut m = match RibM::<C>::new(cfg, vec![], true, false, u32::MAX) {
        Ok(m) => m,
        Err(e) => return vec![e],
    };
    run_script(&mut m, ops, &parse_op, &|m: &RibM<C>| {
        let s = m.rib.verif_snapshot();
        format!("pressing={} value={:?} received={} written={} run={} (model: pressing={} needs {})", m.rib.finger_is_pressing(), m.rib.value(), s.num_samples_received, s.num_samples_written, m.m.run_len, m.m.pressing, m.m.l)
    })
}

pub fn replay(config: &Value, ops: &[String]) -> Vec<String> {
    if let Some(lp) = ops.iter().find(|o| o.starts_with("longpress:")) {
        let parts: Vec<&str> = lp.split(':').collect();
        let cfg = RibCfg { fs: config["fs"].as_u64().unwrap_or(1000) as u32, softpot: config["softpot"].as_f64().unwrap_or(20e3) as f32, dropper: config["dropper"].as_f64().unwrap_or(820.0) as f32, pullup: config["pullup"].as_f64().unwrap_or(1e6) as f32 };
        let polls: usize = parts[1].parse().unwrap();
        let wv = parts[2] == "true";
        return with_capacity!(cfg.fs, replay_long, cfg, polls, wv);
    }
    if let Some(lp) = ops.iter().find(|o| o.starts_with("manypresses:")) {
        let parts: Vec<&str> = lp.split(':').collect();
        let cfg = RibCfg { fs: config["fs"].as_u64().unwrap_or(1000) as u32, softpot: config["softpot"].as_f64().unwrap_or(20e3) as f32, dropper: config["dropper"].as_f64().unwrap_or(820.0) as f32, pullup: config["pullup"].as_f64().unwrap_or(1e6) as f32 };
        let cycles: usize = parts[1].parse().unwrap();
        let wv = parts[2] == "true";
        return with_capacity!(cfg.fs, replay_many, cfg, cycles, wv);
    }
    let ops: Vec<String> = ops.iter().filter(|o| !o.starts_with('#')).cloned().collect();
    let ops = &ops[..];
    let cfg = RibCfg { fs: config["fs"].as_u64().unwrap_or(1000) as u32, softpot: config["softpot"].as_f64().unwrap_or(20e3) as f32, dropper: config["dropper"].as_f64().unwrap_or(820.0) as f32, pullup: config["pullup"].as_f64().unwrap_or(1e6) as f32 };
    with_capacity!(cfg.fs, replay_c, cfg, ops)
}

fn explore_c<const C: usize>(ctx: &Ctx, rep: &mut Report, cfg: RibCfg, levels: Vec<f32>, do_value: bool, deep: bool, max_presses: u32, max_depth: Option<u32>, props: &[&'static str], label: &str) {
    let m = match RibM::<C>::new(cfg, levels, do_value, deep, max_presses) {
        Ok(m) => m,
        Err(e) => {
            // a controller that never presses violates C15 outright
            rep.violation(Violation { prop: "C15", class: "never-presses".into(), detail: e, machine: "ribbon", config: json!({"fs": cfg.fs, "softpot": cfg.softpot, "dropper": cfg.dropper, "pullup": cfg.pullup}), ops: vec![format!("poll:0.4*{}", 4 * C + 64)] });
            return;
        }
    };
    let l = m.m.l;
    if !(l >= C && l <= 2 * C) {
        rep.violation(Violation { prop: "C15", class: "capture-length".into(), detail: format!("a fresh controller at {} Hz reports a press after {} samples; the capture buffer holds {} (expected between {} and {})", cfg.fs, l, C, C, 2 * C), machine: "ribbon", config: m.config(), ops: vec![format!("poll:0.4*{}", l)] });
    }
    rep.count("calibrations", 1);
    let r = explore(m, &ExploreCfg { max_depth, state_cap: 12_000_000, threads: ctx.threads, label: format!("{} (capacity {}, press after {} samples)", label, C, l) }, rep, props);
    if max_depth.is_none() && !r.fixpoint && !r.cap_hit && !r.stopped {
        rep.machinery(format!("{}: no fixpoint", label));
    }
}

/// E2 for the larger capacities (where the full buffer contents cannot be enumerated): every press that is
/// piecewise constant with at most two level switches at every pair of positions (every `stride`-th position for
/// the largest buffers), preceded by nothing / a one-sample tap / a tap one sample short of a press / a complete
/// earlier press at another level, and followed by a lift and two more in-range samples.
fn piecewise_c<const C: usize>(ctx: &Ctx, rep: &mut Report, cfg: RibCfg, stride: usize, props: &[&'static str]) {
    let probe = match RibM::<C>::new(cfg, vec![], true, false, u32::MAX) {
        Ok(m) => m,
        Err(_) => return,
    };
    let l = probe.m.l;
    let b = cfg.boundary();
    let (lo, hi) = (0.15 * b, 0.85 * b);
    let len = l + C + 3;
    let mut pos: Vec<usize> = (0..=len).filter(|p| p % stride == 0 || *p + 2 >= len || *p <= 2 || (*p + 2 >= l && *p <= l + 2)).collect();
    pos.dedup();
    let mut jobs: Vec<(usize, usize, usize, bool)> = Vec::new();
    for pre in 0..4usize {
        for (i, &s1) in pos.iter().enumerate() {
            for &s2 in &pos[i..] {
                jobs.push((pre, s1, s2, false));
                jobs.push((pre, s1, s2, true));
            }
        }
    }
    let jr = &jobs;
    let pv: Vec<&'static str> = props.to_vec();
    let pr = &pv;
    par_ranges(ctx, rep, jobs.len() as u64, 1024, |_, lo_i, hi_i, lc| {
        for j in lo_i..hi_i {
            let (pre, s1, s2, start_hi) = jr[j as usize];
            let mut m = match RibM::<C>::new(cfg, vec![], true, C <= 18, u32::MAX) {
                Ok(m) => m,
                Err(_) => return,
            };
            let mut samples: Vec<f32> = Vec::new();
            match pre {
                1 => samples.extend([0.5 * b, 1.0]),
                2 => {
                    samples.extend(std::iter::repeat(0.5 * b).take(l - 1));
                    samples.push(1.0);
                }
                3 => {
                    samples.extend(std::iter::repeat(0.5 * b).take(l + 2));
                    samples.push(1.0);
                }
                _ => {}
            }
            for k in 0..len {
                let first = if start_hi { hi } else { lo };
                let second = if start_hi { lo } else { hi };
                samples.push(if k < s1 { first } else if k < s2 { second } else { first });
            }
            samples.extend([1.0, lo, hi]);
            for (n, x) in samples.iter().enumerate() {
                let mut out = StepOut::new();
                let r = std::panic::catch_unwind(std::panic::AssertUnwindSafe(|| m.apply(&ROp::Poll(*x), &mut out)));
                for (k, c) in out.counts {
                    lc.count(k, c);
                }
                let script = || -> Vec<String> {
                    // run-length encode the samples fed so far
                    let mut v: Vec<String> = Vec::new();
                    let mut i = 0;
                    while i <= n {
                        let mut e = i;
                        while e + 1 <= n && samples[e + 1] == samples[i] {
                            e += 1;
                        }
                        v.push(if e > i { format!("poll:{:?}*{}", samples[i], e - i + 1) } else { format!("poll:{:?}", samples[i]) });
                        i = e + 1;
                    }
                    v
                };
                if let Err(e) = r {
                    for p in pr.iter() {
                        lc.violation(Violation { prop: p, class: "panic".into(), detail: format!("the real code panicked: {}", panic_msg(&e)), machine: "ribbon", config: m.config(), ops: script() });
                    }
                    break;
                }
                let mut stop = false;
                for f in out.flags {
                    if pr.contains(&f.prop) {
                        let already = lc.per_class.get(&f.class).copied().unwrap_or(0);
                        let s = if already < PER_CLASS_CAP { script() } else { Vec::new() };
                        lc.violation(Violation { prop: f.prop, class: f.class, detail: f.detail, machine: "ribbon", config: m.config(), ops: s });
                        stop = true;
                    }
                }
                if stop {
                    break;
                }
            }
            lc.count("piecewise_constant_presses", 1);
        }
    });
    let n = jobs.len() as u64;
    rep.evaluations += n;
    rep.states += n * len as u64;
    rep.transitions += n * len as u64;
    rep.traces += n;
    rep.subruns.push(json!({"engine": "E2-sweep", "what": "piecewise-constant presses with <= 2 level switches at every pair of positions, 4 kinds of earlier activity", "fs": cfg.fs, "capacity": C, "press_needs": l, "positions": pos.len(), "sequences": n}));
}

/// E2: presses at the ends of the ribbon and slow slides. (a) constant presses at levels from 0 to one ulp below the
/// boundary (both ends of the range, where dead zones and snapping would sit); (b) a press that holds, then slides by a
/// tiny step per sample (1e-7 ... 1e-3 of the range, up and down), then holds again: between two polls the window mean
/// moves by far less than the summation tolerance, so a value that is only refreshed on "enough" change shows.
/// value() is judged on every `lattice`-th pressed poll and on the first and last three.
fn value_scripts_c<const C: usize>(ctx: &Ctx, rep: &mut Report, cfg: RibCfg, lattice: usize, props: &[&'static str]) {
    let probe = match RibM::<C>::new(cfg, vec![], true, false, u32::MAX) {
        Ok(m) => m,
        Err(_) => return,
    };
    let l = probe.m.l;
    let b = cfg.boundary();
    let below = f32::from_bits(b.to_bits() - 1);
    let mut jobs: Vec<Vec<f32>> = Vec::new();
    let mut fr: Vec<f32> = vec![0.0, 1.0e-6, 1.0e-4, 0.001, 0.003, 0.01, 0.03, 0.97, 0.99, 0.995, 0.999, 0.9999];
    for i in 1..24 {
        fr.push(i as f32 / 24.0);
    }
    let mut levels: Vec<f32> = fr.iter().map(|f| f * b).collect();
    levels.extend([f32::from_bits(1), f32::MIN_POSITIVE, below, -0.0]);
    for x in levels {
        let mut v = vec![x; l + 2];
        v.extend([1.0, x, x]);
        jobs.push(v);
    }
    let nramp = (2 * C + 20).min(6000);
    for start in [0.2f32, 0.6] {
        for delta in [1.0e-7f32, 1.0e-6, 1.0e-5, 1.0e-4, 1.0e-3] {
            for sign in [1.0f32, -1.0] {
                let mut v = vec![start * b; l];
                let mut x = start * b;
                for _ in 0..nramp {
                    x = (x + sign * delta * b).clamp(0.0, below);
                    v.push(x);
                }
                v.extend(std::iter::repeat(x).take(C + 3));
                v.push(1.0);
                jobs.push(v);
            }
        }
    }
    let jr = &jobs;
    let pv: Vec<&'static str> = props.to_vec();
    let pr = &pv;
    par_ranges(ctx, rep, jobs.len() as u64, jobs.len() as u64, |_, lo_i, hi_i, lc| {
        for j in lo_i..hi_i {
            let samples = &jr[j as usize];
            let mut m = match RibM::<C>::new(cfg, vec![], true, false, u32::MAX) {
                Ok(m) => m,
                Err(_) => return,
            };
            let last_pressed = samples.iter().rposition(|x| *x >= b).unwrap_or(samples.len());
            for (n, x) in samples.iter().enumerate() {
                let k = n + 1;
                m.do_value = k < l + 4 || k + 4 > last_pressed || (k - l) % lattice == 0 || k > last_pressed;
                let mut out = StepOut::new();
                let r = std::panic::catch_unwind(std::panic::AssertUnwindSafe(|| m.apply(&ROp::Poll(*x), &mut out)));
                if !m.do_value && m.m.pressing {
                    m.m.last_value_bits = m.rib.value().to_bits();
                }
                for (kk, c) in out.counts {
                    lc.count(kk, c);
                }
                let script = || -> Vec<String> {
                    let mut v: Vec<String> = Vec::new();
                    let mut i = 0;
                    while i <= n {
                        let mut e = i;
                        while e + 1 <= n && samples[e + 1] == samples[i] {
                            e += 1;
                        }
                        v.push(if e > i { format!("poll:{:?}*{}", samples[i], e - i + 1) } else { format!("poll:{:?}", samples[i]) });
                        i = e + 1;
                    }
                    v
                };
                if let Err(e) = r {
                    for p in pr.iter() {
                        lc.violation(Violation { prop: p, class: "panic".into(), detail: format!("the real code panicked: {}", panic_msg(&e)), machine: "ribbon", config: m.config(), ops: script() });
                    }
                    break;
                }
                let mut stop = false;
                for f in out.flags {
                    if pr.contains(&f.prop) {
                        let already = lc.per_class.get(&f.class).copied().unwrap_or(0);
                        let sc = if already < PER_CLASS_CAP { script() } else { Vec::new() };
                        lc.violation(Violation { prop: f.prop, class: f.class, detail: f.detail, machine: "ribbon", config: m.config(), ops: sc });
                        stop = true;
                    }
                }
                if stop {
                    break;
                }
            }
            lc.count("end_level_and_slow_slide_presses", 1);
        }
    });
    let n = jobs.len() as u64;
    rep.evaluations += n;
    rep.traces += n;
    let polls: u64 = jobs.iter().map(|v| v.len() as u64).sum();
    rep.states += polls;
    rep.transitions += polls;
    rep.subruns.push(json!({"engine": "E2-sweep", "what": "constant presses at the ends of the range and slow slides", "fs": cfg.fs, "capacity": C, "press_needs": l, "sequences": n, "value_judged_every": lattice}));
}

fn many_cycle_ops(l: usize, b: f32, n: usize) -> Vec<ROp> {
    let x = b * (0.2 + 0.6 * ((n * 37 % 101) as f32 / 101.0));
    let y = b * (0.8 - 0.6 * ((n * 53 % 97) as f32 / 97.0));
    let mut ops: Vec<ROp> = Vec::new();
    for i in 0..(l + 1) {
        ops.push(ROp::Poll(if i % 2 == 0 { x } else { y }));
    }
    ops.extend([ROp::JustPressed, ROp::JustReleased, ROp::Poll(1.0), ROp::JustReleased, ROp::JustPressed]);
    for _ in 0..(l - 1) {
        ops.push(ROp::Poll(y));
    }
    ops.extend([ROp::Poll(1.0), ROp::JustPressed, ROp::JustReleased]);
    ops
}

fn replay_many<const C: usize>(cfg: RibCfg, cycles: usize, with_value: bool) -> Vec<String> {
    let mut m = match RibM::<C>::new(cfg, vec![], with_value, false, u32::MAX) {
        Ok(m) => m,
        Err(e) => return vec![e],
    };
    m.edge_polls = true;
    let (l, b) = (m.m.l, cfg.boundary());
    let mut lines = Vec::new();
    for n in 0..cycles {
        for op in many_cycle_ops(l, b, n) {
            let mut out = StepOut::new();
            let r = std::panic::catch_unwind(std::panic::AssertUnwindSafe(|| m.apply(&op, &mut out)));
            if !out.flags.is_empty() || r.is_err() || n + 1 == cycles {
                let mut line = format!("cycle {:<6} {:<22} -> pressing={} value={:?}", n + 1, RibM::<C>::op_str(&op), m.rib.finger_is_pressing(), m.rib.value());
                if let Err(e) = &r {
                    line.push_str(&format!("  PANIC: {}", panic_msg(e)));
                }
                for f in &out.flags {
                    line.push_str(&format!("\n        !! {} [{}] {}", f.prop, f.class, f.detail));
                }
                lines.push(line);
            }
            if r.is_err() {
                return lines;
            }
        }
        m.hist.clear();
    }
    lines
}

/// many presses and taps in a row (more than an 8-bit, at the smallest capacity more than a 16-bit, counter of presses
/// or taps can hold): press, read both edges, lift, read, a tap one sample short of a press, lift - every poll and
/// read judged by the model, values included when `with_value`
fn many_presses_c<const C: usize>(_ctx: &Ctx, rep: &mut Report, cfg: RibCfg, cycles: usize, with_value: bool, props: &[&'static str]) {
    let mut m = match RibM::<C>::new(cfg, vec![], with_value, false, u32::MAX) {
        Ok(m) => m,
        Err(_) => return,
    };
    m.edge_polls = true;
    let l = m.m.l;
    let b = cfg.boundary();
    let mut flagged = false;
    'cycles: for n in 0..cycles {
        let ops = many_cycle_ops(l, b, n);
        for op in ops.iter() {
            let mut out = StepOut::new();
            let r = std::panic::catch_unwind(std::panic::AssertUnwindSafe(|| m.apply(op, &mut out)));
            let script = || vec![format!("# cycle {} of: press of {} samples alternating two levels, both edge reads, lift, reads, tap of {} samples, lift, reads (levels change from cycle to cycle)", n + 1, l + 1, l - 1), format!("manypresses:{}:{}", n + 1, with_value)];
            if let Err(e) = r {
                for p in props {
                    rep.violation(Violation { prop: p, class: "panic".into(), detail: format!("the real code panicked in press cycle {}: {}", n + 1, panic_msg(&e)), machine: "ribbon", config: m.config(), ops: script() });
                }
                break 'cycles;
            }
            for f in out.flags {
                if props.contains(&f.prop) && !flagged {
                    rep.violation(Violation { prop: f.prop, class: format!("{}-after-many-presses", f.class), detail: format!("{} (press cycle {})", f.detail, n + 1), machine: "ribbon", config: m.config(), ops: script() });
                    flagged = true;
                }
            }
            if flagged {
                break 'cycles;
            }
        }
        // the history is only needed for forks: keep it short
        m.hist.clear();
    }
    rep.count("press_cycles", cycles as u64);
    rep.evaluations += cycles as u64;
    rep.transitions += (cycles * (2 * l + 10)) as u64;
    rep.subruns.push(json!({"engine": "E2-sweep", "what": "many press / tap cycles in a row", "fs": cfg.fs, "capacity": C, "cycles": cycles, "values_checked": with_value}));
}

/// more short touches in a row than a 16-bit counter holds (none of them long enough to be a press), edges read now and
/// then, followed by a real press that must be reported after exactly the usual number of samples
fn many_taps_c<const C: usize>(_ctx: &Ctx, rep: &mut Report, cfg: RibCfg, taps: usize, props: &[&'static str]) {
    let mut m = match RibM::<C>::new(cfg, vec![], false, false, u32::MAX) {
        Ok(m) => m,
        Err(_) => return,
    };
    m.edge_polls = true;
    let l = m.m.l;
    let b = cfg.boundary();
    let mut done = 0usize;
    let step = |m: &mut RibM<C>, op: ROp, done: usize, rep: &mut Report| -> bool {
        let mut out = StepOut::new();
        let r = std::panic::catch_unwind(std::panic::AssertUnwindSafe(|| m.apply(&op, &mut out)));
        let script = || vec![format!("# {} taps of 1..{} in-range samples, each ended by one out-of-range sample, then a press", done, l - 1), format!("poll:{:?}", 0.3 * b), "poll:1.0".to_string()];
        if let Err(e) = r {
            for p in props {
                rep.violation(Violation { prop: p, class: "panic".into(), detail: format!("the real code panicked after {} taps: {}", done, panic_msg(&e)), machine: "ribbon", config: m.config(), ops: script() });
            }
            return false;
        }
        for f in out.flags {
            if props.contains(&f.prop) {
                rep.violation(Violation { prop: f.prop, class: format!("{}-after-many-taps", f.class), detail: format!("{} (after {} taps)", f.detail, done), machine: "ribbon", config: m.config(), ops: script() });
                return false;
            }
        }
        true
    };
    'taps: for n in 0..taps {
        let len = 1 + n % (l - 1).max(1);
        for i in 0..len {
            if !step(&mut m, ROp::Poll(b * (0.1 + 0.8 * ((n + i) % 7) as f32 / 7.0)), done, rep) {
                break 'taps;
            }
        }
        if !step(&mut m, ROp::Poll(1.0), done, rep) {
            break 'taps;
        }
        if n % 1009 == 0 && !(step(&mut m, ROp::JustPressed, done, rep) && step(&mut m, ROp::JustReleased, done, rep)) {
            break 'taps;
        }
        done = n + 1;
        m.hist.clear();
    }
    if done == taps {
        for _ in 0..(l + 1) {
            if !step(&mut m, ROp::Poll(0.4 * b), done, rep) {
                break;
            }
        }
        let _ = step(&mut m, ROp::JustPressed, done, rep) && step(&mut m, ROp::Poll(1.0), done, rep) && step(&mut m, ROp::JustReleased, done, rep);
    }
    rep.count("tap_cycles", taps as u64);
    rep.evaluations += taps as u64;
    rep.transitions += (taps * (l / 2 + 2)) as u64;
    rep.subruns.push(json!({"engine": "E2-sweep", "what": "many short touches in a row, then a press", "fs": cfg.fs, "capacity": C, "taps": taps}));
}

/// one press held for more than 2^16 polls (counters of 8 / 16 bits inside a controller wrap in that time), samples
/// following a golden-ratio sawtooth so that the window contents keep changing; edge polls after every
/// sample when `with_edges`
/// samples of a long press: a golden-ratio sawtooth, so that no two samples a short distance apart are equal (a stale
/// or missing sample in the average always shows)
fn long_press_sample(i: usize, b: f32) -> f32 {
    let f = (i as f64 * 0.618_033_988_749_895).fract();
    (b as f64 * (0.15 + 0.7 * f)) as f32
}

fn long_press_c<const C: usize>(ctx: &Ctx, rep: &mut Report, cfg: RibCfg, with_value: bool, props: &[&'static str]) {
    let _ = ctx;
    let mut m = match RibM::<C>::new(cfg, vec![], with_value, false, u32::MAX) {
        Ok(m) => m,
        Err(_) => return,
    };
    m.edge_polls = !with_value;
    let b = cfg.boundary();
    let total = m.m.l + 65536 + 2 * C + 300;
    let mut ops: Vec<ROp> = Vec::new();
    for i in 0..total {
        let x = long_press_sample(i, b);
        ops.push(ROp::Poll(x));
        if !with_value {
            ops.push(ROp::JustPressed);
            if i % 3 == 0 {
                ops.push(ROp::JustReleased);
            }
        }
    }
    ops.extend([ROp::Poll(1.0), ROp::JustReleased, ROp::JustPressed, ROp::Poll(0.3 * b), ROp::Poll(1.0)]);
    let mut flagged = false;
    for (n, op) in ops.iter().enumerate() {
        // value checks are expensive (a fresh controller is replayed): do them near the start, around 2^8, 2^15, 2^16 and on a lattice
        let k = n.saturating_sub(m.m.l);
        m.do_value = with_value && (k < 3 * C + 40 || (k % 997 == 0) || (250..270).contains(&k) || (32760..32790).contains(&k) || (65520..65536 + 2 * C + 60).contains(&k));
        let mut out = StepOut::new();
        let r = std::panic::catch_unwind(std::panic::AssertUnwindSafe(|| m.apply(op, &mut out)));
        if !m.do_value && with_value && m.m.pressing {
            // keep the retained-value reference in step while value checks are skipped
            m.m.last_value_bits = m.rib.value().to_bits();
        }
        let script = || -> Vec<String> {
            let polls = ops[..=n].iter().filter(|o| matches!(o, ROp::Poll(_))).count();
            vec![format!("# one press of {} polls, sample i = boundary * (0.15 + 0.7 * frac(i * 0.618034)){}", polls, if with_value { "" } else { ", edge polls after every sample" }), format!("longpress:{}:{}", polls, with_value)]
        };
        if let Err(e) = r {
            for p in props {
                rep.violation(Violation { prop: p, class: "panic".into(), detail: format!("the real code panicked: {}", panic_msg(&e)), machine: "ribbon", config: m.config(), ops: script() });
            }
            break;
        }
        for f in out.flags {
            if props.contains(&f.prop) && !flagged {
                let polls = ops[..=n].iter().filter(|o| matches!(o, ROp::Poll(_))).count();
                rep.violation(Violation { prop: f.prop, class: format!("{}-in-a-long-press", f.class), detail: format!("{} (sample {} of the press)", f.detail, polls), machine: "ribbon", config: m.config(), ops: script() });
                flagged = true;
            }
        }
        if flagged {
            break;
        }
    }
    rep.count("long_presses", 1);
    rep.evaluations += 1;
    rep.transitions += ops.len() as u64;
    rep.states += ops.len() as u64;
    rep.traces += 1;
    rep.subruns.push(json!({"engine": "E2-sweep", "what": "one press held for 2^16 + polls", "fs": cfg.fs, "capacity": C, "polls": total, "edge_polls_after_every_sample": !with_value}));
}

fn probe_counts_c<const C: usize>(cfg: RibCfg) -> Option<(usize, usize)> {
    let l = calibrate::<C>(&cfg)?;
    if l < C {
        return None;
    }
    Some((l - C, excluded_newest::<C>(&cfg, l)))
}

// 32 kHz, 44.1 kHz and 64 kHz added in round 7: with them a count derived from the truncated sample period
// (T / (1e6 / fs)) is no longer explained by any single time (seeded/ribbon-7A)
const ALL_RATES: [u32; 18] = [100, 334, 500, 1000, 2000, 3500, 4000, 8000, 10000, 17000, 17067, 22050, 32000, 44100, 48000, 64000, 96000, 192000];

/// The settling skip (C15) and the finger-lift allowance (C16) are times; the statements fix neither their length nor
/// how a time becomes a sample count. What they do imply is that ONE time, turned into counts by ONE rule, is behind
/// the counts at every sample rate. The counts are measured behaviourally on correctly sized controllers at the 18
/// instantiated rates (samples before the first press minus the capacity; newest samples without influence on the
/// value) and must be explained by count = floor(fs*T) + c or ceil(fs*T) + c (c in {-1, 0}, not below 0) for some T.
fn allowance_consistency(_ctx: &Ctx, rep: &mut Report, prop: &'static str) {
    let mut counts: Vec<(u32, usize)> = Vec::new();
    for fs in ALL_RATES {
        let cfg = RibCfg { fs, softpot: 20e3, dropper: 820.0, pullup: 1e6 };
        let r = std::panic::catch_unwind(|| with_capacity!(fs, probe_counts_c, cfg));
        match r {
            Ok(Some((skip, excl))) => counts.push((fs, if prop == "C15" { skip } else { excl })),
            Ok(None) => {} // never presses / presses early: reported by the calibration checks
            Err(e) => {
                rep.violation(Violation { prop, class: "panic".into(), detail: format!("the real code panicked while a fresh controller at {} Hz was pressed: {}", fs, panic_msg(&e)), machine: "ribbon", config: json!({"fs": fs, "softpot": 20e3, "dropper": 820.0, "pullup": 1e6}), ops: vec!["poll:0.4*64".into()] });
                return;
            }
        }
        rep.count("sample_rates_checked", 1);
    }
    let mut explained = false;
    'rules: for ceil in [false, true] {
        for c in [0i64, -1] {
            // intersect the intervals of T (in seconds) that each rate allows: lo < T*fs... kept as open/closed-agnostic bounds
            let (mut lo, mut hi) = (0.0f64, f64::INFINITY);
            for &(fs, n) in &counts {
                let n = n as i64;
                let f = fs as f64;
                // count = max(0, round_rule(fs*T) + c)
                let base = n - c; // value of round_rule(fs*T) if not clamped
                let (l1, h1) = if n == 0 {
                    // round_rule(fs*T) <= -c
                    (0.0, if ceil { (-c) as f64 / f } else { (-c + 1) as f64 / f })
                } else if ceil {
                    ((base - 1) as f64 / f, base as f64 / f)
                } else {
                    (base as f64 / f, (base + 1) as f64 / f)
                };
                lo = lo.max(l1);
                hi = hi.min(h1);
            }
            // floor: [lo, hi) ; ceil: (lo, hi] : non-empty iff lo < hi
            if lo < hi {
                explained = true;
                rep.maxf(if prop == "C15" { "settling_time_explaining_all_counts_us" } else { "finger_lift_time_explaining_all_counts_us" }, lo.max(0.0) * 1.0e6);
                break 'rules;
            }
        }
    }
    if !explained {
        rep.violation(Violation { prop, class: "allowance-sample-counts".into(), detail: format!("the {} measured on fresh controllers at the instantiated sample rates, {:?} (rate, samples), are not floor(fs*T)+c or ceil(fs*T)+c for any single time T and c in {{-1, 0}}", if prop == "C15" { "numbers of settling samples skipped before a press" } else { "numbers of newest samples excluded from the value" }, counts), machine: "ribbon", config: json!({"fs": 3500, "softpot": 20e3, "dropper": 820.0, "pullup": 1e6}), ops: vec!["# counts measured behaviourally: polls until the first press minus the capacity; newest samples that do not influence value()".into()] });
    }
    rep.evaluations += ALL_RATES.len() as u64;
}

/// E2 for the largest capacities: linear scripts through the press-detection model (no forks): an idle prefix of
/// k out-of-range polls, a tap one sample short of a press, a press that is exactly long enough, a re-touch after a
/// gap of g out-of-range samples, with both edges polled at every step of the interesting stretches
fn scripted_presses_c<const C: usize>(ctx: &Ctx, rep: &mut Report, cfg: RibCfg, props: &[&'static str]) {
    let probe = match RibM::<C>::new(cfg, vec![], false, false, u32::MAX) {
        Ok(m) => m,
        Err(_) => return,
    };
    let l = probe.m.l;
    let b = cfg.boundary();
    let mut jobs: Vec<(usize, usize, usize)> = Vec::new(); // idle prefix, gap, level pattern (0: one level, 1: far-apart levels in turn)
    for k in [0usize, 1, 2, 3, 5, 7, 64, 1023, 1024, 1025] {
        for g in [1usize, 2, 3, 17] {
            jobs.push((k, g, 0));
            if g <= 2 && (k < 3 || k == 1024) {
                jobs.push((k, g, 1));
            }
        }
    }
    // left untouched for longer than a 16-bit counter of polls can hold, then pressed
    for k in [65_534usize, 65_535, 65_536, 65_537, 70_000] {
        jobs.push((k, 1, (k % 2) as usize));
    }
    let jr = &jobs;
    let pv: Vec<&'static str> = props.to_vec();
    let pr = &pv;
    par_ranges(ctx, rep, jobs.len() as u64, jobs.len() as u64, |_, lo, hi, lc| {
        for j in lo..hi {
            let (k, g, pattern) = jr[j as usize];
            let mut m = match RibM::<C>::new(cfg, vec![], false, false, u32::MAX) {
                Ok(m) => m,
                Err(_) => return,
            };
            let x = 0.37 * b;
            let mut ops: Vec<(ROp, usize)> = vec![(ROp::Poll(1.0), k), (ROp::Poll(x), l - 1), (ROp::Poll(1.0), 1), (ROp::Poll(x), l + 2), (ROp::JustPressed, 1), (ROp::Poll(1.0), g), (ROp::JustReleased, 1), (ROp::Poll(x), l + 1), (ROp::JustPressed, 1), (ROp::Poll(1.0), 1), (ROp::Poll(x), 3)];
            ops.retain(|(_, n)| *n > 0);
            let mut done: Vec<String> = Vec::new();
            'script: for (op, n) in ops {
                for i in 0..n {
                    let mut out = StepOut::new();
                    // pattern 1: the finger slides far between consecutive samples (the level changes, the run goes on)
                    let op = match op {
                        ROp::Poll(v) if v < b && pattern == 1 => ROp::Poll([0.04 * b, 0.96 * b, 0.37 * b][i % 3]),
                        o => o,
                    };
                    let r = std::panic::catch_unwind(std::panic::AssertUnwindSafe(|| m.apply(&op, &mut out)));
                    // poll the edges around the moments a press may be reported
                    let near = n - i <= 4 || i < 2;
                    let script = |done: &Vec<String>| {
                        let mut s = done.clone();
                        if pattern == 1 && matches!(op, ROp::Poll(v) if v < b) {
                            for q in 0..=i {
                                s.push(format!("poll:{:?}", [0.04 * b, 0.96 * b, 0.37 * b][q % 3]));
                            }
                        } else {
                            s.push(format!("{}*{}", RibM::<C>::op_str(&op), i + 1));
                        }
                        s
                    };
                    if let Err(e) = r {
                        for p in pr.iter() {
                            lc.violation(Violation { prop: p, class: "panic".into(), detail: format!("the real code panicked: {}", panic_msg(&e)), machine: "ribbon", config: m.config(), ops: script(&done) });
                        }
                        break 'script;
                    }
                    let mut flags = out.flags;
                    if near && matches!(op, ROp::Poll(_)) {
                        for e in [ROp::JustPressed, ROp::JustReleased] {
                            let mut o2 = StepOut::new();
                            m.apply(&e, &mut o2);
                            flags.extend(o2.flags);
                        }
                    }
                    let mut stop = false;
                    for f in flags {
                        if pr.contains(&f.prop) {
                            lc.violation(Violation { prop: f.prop, class: f.class, detail: f.detail, machine: "ribbon", config: m.config(), ops: script(&done) });
                            stop = true;
                        }
                    }
                    if stop {
                        break 'script;
                    }
                }
                if pattern == 1 && matches!(op, ROp::Poll(v) if v < b) {
                    for q in 0..n {
                        done.push(format!("poll:{:?}", [0.04 * b, 0.96 * b, 0.37 * b][q % 3]));
                    }
                } else {
                    done.push(format!("{}*{}", RibM::<C>::op_str(&op), n));
                }
            }
            lc.count("scripted_press_sequences", 1);
            if pattern == 1 {
                lc.count("scripted_press_sequences_with_far_apart_levels", 1);
            }
            if k > 65_000 {
                lc.count("scripted_press_sequences_after_65536_idle_polls", 1);
            }
        }
    });
    rep.evaluations += jobs.len() as u64;
    rep.transitions += jobs.len() as u64 * (4 * l as u64);
    rep.states += jobs.len() as u64 * (4 * l as u64);
    rep.traces += jobs.len() as u64;
    rep.subruns.push(json!({"engine": "E2-sweep", "what": "linear press / tap / re-touch scripts with idle prefixes and gaps", "fs": cfg.fs, "capacity": C, "press_needs": l, "scripts": jobs.len()}));
}

pub fn sr_cross<const C: usize>(ctx: &Ctx, rep: &mut Report, cfg: RibCfg, levels: Vec<f32>, props: &[&'static str]) {
    crate::sr::cross_check(ctx, rep, || RibM::<C>::new(cfg, levels.clone(), false, false, 2).expect("calibration"), &format!("ribbon press machine at {} Hz", cfg.fs), props);
}

const TRIPLES: [(f32, f32, f32); 3] = [(20e3, 820.0, 1e6), (10e3, 1e3, 100e3), (10e3, 1e3, 11e3)];

pub fn c15(ctx: &Ctx) -> Report {
    let mut rep = Report::new();
    rep.rule.push("E1: BFS to fixpoint on the real controller (rebuilt from its poll history for every successor), operations poll(in-range), poll(out-of-range), poll just below / above the documented boundary, finger_just_pressed(), finger_just_released(); reference model = run length of consecutive in-range samples with the capture length calibrated on a fresh controller, so every later press in every history must need exactly as many samples as the first; exploration bounded to 2 reported presses per history (3 in the thorough tier); non-trivial = expected presses that follow a tap shorter than the capture time + edge polls expected true".into());
    let thorough = ctx.tier.is_thorough();
    let rates: Vec<u32> = if thorough { vec![100, 334, 500, 1000, 2000, 10000] } else { vec![100, 334, 500, 1000, 2000] };
    let p = &["C15"];
    for (ti, t) in TRIPLES.iter().enumerate() {
        for &fs in &rates {
            if ti > 0 && fs > 1000 {
                continue;
            }
            let cfg = RibCfg { fs, softpot: t.0, dropper: t.1, pullup: t.2 };
            let b = cfg.boundary();
            // the single in-range level of the larger capacities differs per resistor triple: mid-range, a subnormal, near the boundary
            let solo = [0.4 * b, 1.0e-40, 0.98 * b][ti];
            let levels: Vec<f32> = if fs == 100 { vec![0.4 * b, 1.0, b * 0.999, b * 1.001, 0.0, 1.0e-40, -0.0] } else if fs == 334 { vec![0.4 * b, 1.0, b * 1.001, b * 0.999] } else if fs == 500 { vec![0.4 * b, 1.0, f32::from_bits(1)] } else { vec![solo, 1.0] };
            let mp = if thorough && fs <= 2000 { 3 } else { 2 };
            with_capacity!(fs, explore_c, ctx, &mut rep, cfg, levels, false, false, mp, None, p, &format!("press detection at {} Hz, resistors {:?}", fs, t));
        }
    }
    // a press held beyond 2^16 samples with the edges polled after every sample
    {
        let rates: Vec<u32> = if thorough { vec![500, 1000, 10000] } else { vec![1000] };
        for fs in rates {
            let cfg = RibCfg { fs, softpot: 20e3, dropper: 820.0, pullup: 1e6 };
            with_capacity!(fs, long_press_c, ctx, &mut rep, cfg, false, p);
        }
        allowance_consistency(ctx, &mut rep, "C15");
        for (fs, cycles) in [(100u32, 70_000usize), (1000, 300), (10000, 260)] {
            let cfg = RibCfg { fs, softpot: 20e3, dropper: 820.0, pullup: 1e6 };
            with_capacity!(fs, many_presses_c, ctx, &mut rep, cfg, cycles, false, p);
        }
        for (fs, taps) in [(334u32, 70_000usize), (1000, 66_000)] {
            let cfg = RibCfg { fs, softpot: 20e3, dropper: 820.0, pullup: 1e6 };
            with_capacity!(fs, many_taps_c, ctx, &mut rep, cfg, taps, p);
        }
        for fs in if thorough { vec![10000u32, 22050, 48000, 96000, 192000] } else { vec![10000u32, 48000, 96000, 192000] } {
            let cfg = RibCfg { fs, softpot: 20e3, dropper: 820.0, pullup: 1e6 };
            with_capacity!(fs, scripted_presses_c, ctx, &mut rep, cfg, p);
        }
    }
    // complement without state matching at the two smallest capacities
    {
        let cfg = RibCfg { fs: 100, softpot: 20e3, dropper: 820.0, pullup: 1e6 };
        let m = RibM::<{ sample_rate_to_capacity(100) }>::new(cfg, vec![0.4 * cfg.boundary(), 1.0], false, false, u32::MAX).expect("calibration");
        enumerate_sequences(&m, if thorough { 12 } else { 10 }, ctx, &mut rep, p, "all sample / poll sequences at capacity 2, no state matching");
        let cfg = RibCfg { fs: 334, softpot: 20e3, dropper: 820.0, pullup: 1e6 };
        let m = RibM::<{ sample_rate_to_capacity(334) }>::new(cfg, vec![0.4 * cfg.boundary(), 1.0], false, false, u32::MAX).expect("calibration");
        enumerate_sequences(&m, if thorough { 14 } else { 11 }, ctx, &mut rep, p, "all sample / poll sequences at capacity 6, no state matching");
    }
    if thorough {
        let cfg = RibCfg { fs: 1000, softpot: 20e3, dropper: 820.0, pullup: 1e6 };
        sr_cross::<{ sample_rate_to_capacity(1000) }>(ctx, &mut rep, cfg, vec![0.4, 1.0], p);
        let cfg = RibCfg { fs: 334, softpot: 20e3, dropper: 820.0, pullup: 1e6 };
        sr_cross::<{ sample_rate_to_capacity(334) }>(ctx, &mut rep, cfg, vec![0.4, 1.0, 0.0], p);
        key_selfcheck(RibM::<{ sample_rate_to_capacity(334) }>::new(cfg, vec![0.4, 1.0, 0.0], false, false, 2).expect("calibration"), 300_000, &mut rep, "ribbon press machine at 334 Hz");
    }
    rep.nontrivial = rep.counters.get("presses_following_a_tap_shorter_than_the_capture_time").copied().unwrap_or(0) + rep.counters.get("edge_polls_expected_true").copied().unwrap_or(0);
    rep.require_nonzero("presses_following_a_tap_shorter_than_the_capture_time");
    rep.require_nonzero("edge_polls_expected_true");
    rep.require_nonzero("releases_expected");
    rep.require_nonzero("scripted_press_sequences");
    rep.assumptions.push("sample rates are the six instantiated capacities (2, 6, 9, 18, 35, 171); a const-generic capacity cannot be enumerated at run time".into());
    rep
}

pub fn c16(ctx: &Ctx) -> Report {
    let mut rep = Report::new();
    rep.rule.push("E1: BFS on the real controller with three in-range levels and one out-of-range level, full buffer contents in the state key (fixpoint at capacities 2, 6, 9; depth-bounded at 18); while a press is reported value() must lie in [0,1], between the corrected min and max of the contributing samples, within (capacity+8)*2^-23 of the corrected rescaled mean computed in f64, and be bit-identical to the value of a fresh real controller fed only the contributing samples of this press (independence from earlier presses and from the excluded newest samples); raising any one contributing sample must not lower it; while lifted value() must not change; non-trivial = pressed states whose contributing samples are not all equal".into());
    let thorough = ctx.tier.is_thorough();
    let p = &["C16"];
    for (ti, t) in TRIPLES.iter().enumerate() {
        // (sample rate, in-range levels as fractions of the boundary, reported presses explored, depth bound)
        let runs: Vec<(u32, Vec<f32>, u32, Option<u32>)> = if ti == 0 {
            if thorough {
                vec![(100, vec![0.1, 0.5, 0.9], 3, None), (334, vec![0.1, 0.5, 0.9], 3, None), (500, vec![0.1, 0.9], 3, None)]
            } else {
                vec![(100, vec![0.1, 0.5, 0.9], 3, None), (334, vec![0.1, 0.5, 0.9], 2, None), (500, vec![0.1, 0.9], 2, None)]
            }
        } else {
            vec![(100, vec![0.1, 0.5, 0.9], 2, None), (334, vec![0.1, 0.9], 2, None)]
        };
        for (fs, fr, mp, depth) in runs {
            let cfg = RibCfg { fs, softpot: t.0, dropper: t.1, pullup: t.2 };
            let b = cfg.boundary();
            let mut levels: Vec<f32> = fr.iter().map(|f| f * b).collect();
            levels.push(1.0);
            with_capacity!(fs, explore_c, ctx, &mut rep, cfg, levels, true, fs <= 500, mp, depth, p, &format!("position value at {} Hz, resistors {:?}", fs, t));
        }
    }
    for (ti, t) in TRIPLES.iter().enumerate() {
        let rates: Vec<(u32, usize)> = if thorough { if ti == 0 { vec![(500, 1), (1000, 1), (2000, 1), (10000, 1)] } else { vec![(1000, 1), (2000, 1), (10000, 5)] } } else if ti == 0 { vec![(1000, 1), (2000, 1), (10000, 15)] } else { vec![(1000, 1), (2000, 2)] };
        for (fs, stride) in rates {
            let cfg = RibCfg { fs, softpot: t.0, dropper: t.1, pullup: t.2 };
            with_capacity!(fs, piecewise_c, ctx, &mut rep, cfg, stride, p);
        }
    }
    {
        let rates: Vec<u32> = if thorough { vec![500, 1000, 2000] } else { vec![500] };
        for fs in rates {
            let cfg = RibCfg { fs, softpot: 20e3, dropper: 820.0, pullup: 1e6 };
            with_capacity!(fs, long_press_c, ctx, &mut rep, cfg, true, p);
        }
        allowance_consistency(ctx, &mut rep, "C16");
        for (fs, cycles) in [(100u32, 70_000usize), (1000, 300)] {
            let cfg = RibCfg { fs, softpot: 20e3, dropper: 820.0, pullup: 1e6 };
            with_capacity!(fs, many_presses_c, ctx, &mut rep, cfg, cycles, true, p);
        }
        for (fs, stride) in if thorough { vec![(3500u32, 3usize), (4000, 3), (8000, 7), (22050, 40)] } else { vec![(3500u32, 9usize), (8000, 25)] } {
            let cfg = RibCfg { fs, softpot: 20e3, dropper: 820.0, pullup: 1e6 };
            with_capacity!(fs, piecewise_c, ctx, &mut rep, cfg, stride, p);
        }
    }
    // the ends of the ribbon and slow slides, from the smallest capacity to the largest (>= 256 contributing samples
    // from 17 kHz on)
    for (ti, t) in TRIPLES.iter().enumerate() {
        let rates: Vec<(u32, usize)> = if ti == 0 {
            if thorough { vec![(100, 1), (500, 1), (1000, 1), (10000, 1), (17000, 7), (17067, 7), (22050, 11), (48000, 61), (96000, 127), (192000, 251)] } else { vec![(100, 1), (1000, 1), (10000, 7), (17000, 31), (17067, 31), (48000, 127), (192000, 509)] }
        } else {
            vec![(334, 1), (2000, 1)]
        };
        for (fs, lattice) in rates {
            let cfg = RibCfg { fs, softpot: t.0, dropper: t.1, pullup: t.2 };
            with_capacity!(fs, value_scripts_c, ctx, &mut rep, cfg, lattice, p);
        }
    }
    if thorough {
        let cfg = RibCfg { fs: 334, softpot: 20e3, dropper: 820.0, pullup: 1e6 };
        let b = cfg.boundary();
        key_selfcheck(RibM::<{ sample_rate_to_capacity(334) }>::new(cfg, vec![0.1 * b, 0.9 * b, 1.0], true, false, 2).expect("calibration"), 200_000, &mut rep, "ribbon value machine at 334 Hz");
    }
    rep.nontrivial = rep.counters.get("values_checked_with_mixed_contributors").copied().unwrap_or(0);
    rep.require_nonzero("values_checked_with_mixed_contributors");
    rep.require_nonzero("values_checked_while_lifted");
    rep.require_nonzero("monotonicity_comparisons");
    rep.require_nonzero("piecewise_constant_presses");
    rep.require_nonzero("long_presses");
    rep.require_nonzero("sample_rates_checked");
    rep.require_nonzero("end_level_and_slow_slide_presses");
    rep.assumptions.push("the pull-up correction is the documented estimate c(m) = m - (m - m^2)*(softpot+dropper)/pullup".into());
    rep
}
