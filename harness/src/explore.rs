//! Engine E1: explicit-state breadth-first exploration of a machine whose
//! transition function calls the real code.
//!
//! Level-synchronous; each level is expanded by `threads` workers over
//! contiguous chunks of the frontier, candidates are merged in frontier order,
//! so states, transitions, depth and counterexamples are identical from run to
//! run and independent of the thread count.

use crate::common::*;
use serde_json::{json, Value};
use std::collections::HashSet;

/// What an oracle reports for one transition.
pub struct Flag {
    pub prop: &'static str,
    pub class: String,
    pub detail: String,
}

pub struct StepOut {
    pub flags: Vec<Flag>,
    /// per-transition counters of non-trivial cases
    pub counts: Vec<(&'static str, u64)>,
    /// an observation string (used for the "distinct outcomes" count and samples)
    pub obs: u64,
}

impl StepOut {
    pub fn new() -> Self {
        StepOut { flags: Vec::new(), counts: Vec::new(), obs: 0 }
    }
    pub fn flag(&mut self, prop: &'static str, class: &str, detail: String) {
        self.flags.push(Flag { prop, class: class.to_string(), detail });
    }
    pub fn count(&mut self, k: &'static str) {
        self.counts.push((k, 1));
    }
}

pub trait Machine: Send + Sync + Sized {
    type Op: Clone + Send + Sync;
    const NAME: &'static str;
    fn config(&self) -> Value;
    /// enabled operations in this state, simplest first
    fn ops(&self, out: &mut Vec<Self::Op>);
    /// execute on the real object (inside catch_unwind by the engine), step the
    /// reference model, evaluate the oracles
    fn apply(&mut self, op: &Self::Op, out: &mut StepOut);
    /// complete state identity (implementation + model + monitors)
    fn key(&self) -> u128;
    fn fork(&self) -> Self;
    fn op_str(op: &Self::Op) -> String;
}

pub struct ExploreCfg {
    pub max_depth: Option<u32>,
    pub state_cap: u64,
    pub threads: usize,
    pub label: String,
}

pub struct ExploreResult {
    pub states: u64,
    pub transitions: u64,
    pub depth: u32,
    pub fixpoint: bool,
    pub cap_hit: bool,
    /// the exploration was ended at the end of the BFS level in which the first violations were found
    pub stopped: bool,
    pub per_level: Vec<u64>,
    pub distinct_obs: u64,
}

struct Cand<M: Machine> {
    key: u128,
    m: M,
    parent: u32,
    op: M::Op,
}

struct Chunk<M: Machine> {
    cands: Vec<Cand<M>>,
    transitions: u64,
    flags: Vec<(u32, M::Op, Flag)>,
    counts: std::collections::BTreeMap<&'static str, u64>,
    obs: HashSet<u64>,
    panics: Vec<(u32, M::Op, String)>,
}

pub fn explore<M: Machine>(init: M, cfg: &ExploreCfg, rep: &mut Report, props: &[&'static str]) -> ExploreResult {
    let mut seen: HashSet<u128> = HashSet::new();
    // parent table: for every state id, (parent id, op that reached it)
    let mut parents: Vec<(u32, Option<M::Op>)> = Vec::new();
    let mut frontier: Vec<(u32, M)> = Vec::new();
    seen.insert(init.key());
    parents.push((u32::MAX, None));
    let cfgv = init.config();
    frontier.push((0, init));
    let mut per_level = vec![1u64];
    let mut transitions = 0u64;
    let mut depth = 0u32;
    let mut fixpoint = false;
    let mut cap_hit = false;
    let mut stopped = false;
    let mut found_here = 0u64;
    let mut all_obs: HashSet<u64> = HashSet::new();
    let mut sampled = 0;

    loop {
        if frontier.is_empty() {
            fixpoint = true;
            break;
        }
        if let Some(d) = cfg.max_depth {
            if depth >= d {
                break;
            }
        }
        let nthreads = cfg.threads.max(1);
        let chunk_size = ((frontier.len() + nthreads * 4 - 1) / (nthreads * 4)).max(64);
        let nchunks = (frontier.len() + chunk_size - 1) / chunk_size;
        let next = std::sync::atomic::AtomicUsize::new(0);
        let results: std::sync::Mutex<Vec<(usize, Chunk<M>)>> = std::sync::Mutex::new(Vec::new());
        let seen_ref = &seen;
        let frontier_ref = &frontier;
        let abort = std::sync::atomic::AtomicBool::new(false);
        let abort_ref = &abort;
        std::thread::scope(|s| {
            for _ in 0..nthreads.min(nchunks) {
                s.spawn(|| loop {
                    let ci = next.fetch_add(1, std::sync::atomic::Ordering::SeqCst);
                    if ci >= nchunks {
                        break;
                    }
                    let lo = ci * chunk_size;
                    let hi = ((ci + 1) * chunk_size).min(frontier_ref.len());
                    let mut ch: Chunk<M> = Chunk {
                        cands: Vec::new(),
                        transitions: 0,
                        flags: Vec::new(),
                        counts: Default::default(),
                        obs: HashSet::new(),
                        panics: Vec::new(),
                    };
                    let mut ops = Vec::new();
                    for (n_done, (sid, m)) in frontier_ref[lo..hi].iter().enumerate() {
                        // memory guard inside the level: candidate lists can outgrow the state cap many times over
                        if n_done % 4096 == 0 && (abort_ref.load(std::sync::atomic::Ordering::Relaxed) || rss_gb() > max_rss_gb()) {
                            abort_ref.store(true, std::sync::atomic::Ordering::Relaxed);
                            break;
                        }
                        ops.clear();
                        m.ops(&mut ops);
                        if reverse_ops() {
                            ops.reverse();
                        }
                        for op in &ops {
                            let mut n = m.fork();
                            let mut out = StepOut::new();
                            let r = std::panic::catch_unwind(std::panic::AssertUnwindSafe(|| {
                                n.apply(op, &mut out);
                            }));
                            ch.transitions += 1;
                            if let Err(e) = r {
                                ch.panics.push((*sid, op.clone(), panic_msg(&e)));
                                continue;
                            }
                            for (k, c) in out.counts {
                                *ch.counts.entry(k).or_insert(0) += c;
                            }
                            ch.obs.insert(out.obs);
                            for f in out.flags {
                                ch.flags.push((*sid, op.clone(), f));
                            }
                            let k = n.key();
                            if !seen_ref.contains(&k) {
                                ch.cands.push(Cand { key: k, m: n, parent: *sid, op: op.clone() });
                            }
                        }
                    }
                    results.lock().unwrap().push((ci, ch));
                });
            }
        });
        let mut results = results.into_inner().unwrap();
        results.sort_by_key(|r| r.0);
        let mut nextf: Vec<(u32, M)> = Vec::new();
        for (_, ch) in results {
            transitions += ch.transitions;
            for (k, c) in ch.counts {
                rep.count(k, c);
            }
            all_obs.extend(ch.obs);
            for (sid, op, f) in ch.flags {
                if !props.contains(&f.prop) {
                    continue;
                }
                let already = rep.per_class.get(&f.class).copied().unwrap_or(0);
                let ops = if already < PER_CLASS_CAP { path_to::<M>(&parents, sid, Some(&op)) } else { Vec::new() };
                found_here += 1;
                rep.violation(Violation {
                    prop: f.prop,
                    class: f.class,
                    detail: f.detail,
                    machine: M::NAME,
                    config: cfgv.clone(),
                    ops,
                });
            }
            for (sid, op, msg) in ch.panics {
                let ops = path_to::<M>(&parents, sid, Some(&op));
                // a panic of the subject violates the property under check and C17
                found_here += 1;
                for p in props {
                    rep.violation(Violation {
                        prop: p,
                        class: "panic".to_string(),
                        detail: format!("the real code panicked: {}", msg),
                        machine: M::NAME,
                        config: cfgv.clone(),
                        ops: ops.clone(),
                    });
                }
            }
            for c in ch.cands {
                if seen.insert(c.key) {
                    let id = parents.len() as u32;
                    parents.push((c.parent, Some(c.op)));
                    nextf.push((id, c.m));
                }
            }
        }
        if abort.load(std::sync::atomic::Ordering::Relaxed) {
            cap_hit = true;
            frontier = nextf;
            break;
        }
        depth += 1;
        per_level.push(nextf.len() as u64);
        // a few sample paths
        if sampled < 3 && !nextf.is_empty() {
            let (sid, _) = &nextf[nextf.len() / 2];
            rep.sample(json!({"machine": M::NAME, "config": cfgv, "label": cfg.label, "depth": depth, "path": path_to::<M>(&parents, *sid, None)}));
            sampled += 1;
        }
        frontier = nextf;
        if found_here > 0 {
            // counterexamples of minimal length have been recorded; a faulty subject can have an unbounded state
            // space (the reference model and the real state drift apart), so the search ends with this level
            stopped = true;
            rep.exhaustive = false;
            rep.count("explorations_ended_at_the_level_of_the_first_violation", 1);
            break;
        }
        if seen.len() as u64 > cfg.state_cap || rss_gb() > max_rss_gb() {
            cap_hit = true;
            break;
        }
    }
    if !frontier.is_empty() && sampled < 5 {
        let (sid, _) = &frontier[frontier.len() - 1];
        rep.sample(json!({"machine": M::NAME, "config": cfgv, "label": cfg.label, "depth": depth, "path": path_to::<M>(&parents, *sid, None)}));
    }
    let states = seen.len() as u64;
    rep.states += states;
    rep.transitions += transitions;
    rep.traces += transitions;
    if cap_hit {
        rep.exhaustive = false;
        rep.machinery(format!(
            "{}: state cap {} (or the {} GiB memory cap) hit at depth {} (last complete level {}); no verdict beyond what was explored",
            cfg.label,
            cfg.state_cap,
            max_rss_gb(),
            depth,
            depth.saturating_sub(1)
        ));
    }
    rep.subruns.push(json!({
        "engine": "E1-bfs",
        "machine": M::NAME,
        "label": cfg.label,
        "config": cfgv,
        "states": states,
        "transitions": transitions,
        "depth": depth,
        "fixpoint": fixpoint,
        "depth_bound": cfg.max_depth,
        "states_per_level": per_level,
        "distinct_observations": all_obs.len(),
    }));
    ExploreResult { states, transitions, depth, fixpoint, cap_hit, stopped, per_level, distinct_obs: all_obs.len() as u64 }
}

/// resident set size of this process in GiB (0 when it cannot be read)
pub fn rss_gb() -> f64 {
    std::fs::read_to_string("/proc/self/statm").ok().and_then(|s| s.split_whitespace().nth(1).and_then(|p| p.parse::<f64>().ok())).map(|pages| pages * 4096.0 / (1u64 << 30) as f64).unwrap_or(0.0)
}

/// self-check switch: expand operations in reverse menu order. With a complete state key the set of reachable
/// keys (hence the state count) cannot depend on the expansion order.
pub fn reverse_ops() -> bool {
    std::env::var("VERIF_REVERSE_OPS").map(|v| v == "1").unwrap_or(false)
}

pub fn max_rss_gb() -> f64 {
    std::env::var("VERIF_MAX_RSS_GB").ok().and_then(|s| s.parse().ok()).unwrap_or(24.0)
}

fn path_to<M: Machine>(parents: &[(u32, Option<M::Op>)], mut sid: u32, last: Option<&M::Op>) -> Vec<String> {
    let mut rev: Vec<String> = Vec::new();
    if let Some(op) = last {
        rev.push(M::op_str(op));
    }
    while sid != u32::MAX {
        let (p, op) = &parents[sid as usize];
        if let Some(op) = op {
            rev.push(M::op_str(op));
        }
        sid = *p;
    }
    rev.reverse();
    rev
}

/// Plain depth-bounded enumeration of *all* operation sequences (no state
/// matching), for machines whose states practically never merge (glide).
/// Parallel over the first `split` levels. `visit` is called after every step.
pub fn enumerate_sequences<M: Machine>(
    init: &M,
    depth: u32,
    ctx: &Ctx,
    rep: &mut Report,
    props: &[&'static str],
    label: &str,
) {
    // prefixes of length `pl`
    let mut ops0 = Vec::new();
    init.ops(&mut ops0);
    let nops = ops0.len() as u64;
    let pl = if depth >= 3 { 2 } else { 1 }.min(depth);
    let nprefix = nops.pow(pl);
    let cfgv = init.config();
    let total_before = rep.transitions;
    let props_v: Vec<&'static str> = props.to_vec();
    let trans = std::sync::atomic::AtomicU64::new(0);
    let seqs = std::sync::atomic::AtomicU64::new(0);
    par_ranges(ctx, rep, nprefix, nprefix, |_, lo, hi, lc| {
        for pi in lo..hi {
            // decode prefix
            let mut idx = Vec::new();
            let mut x = pi;
            for _ in 0..pl {
                idx.push((x % nops) as usize);
                x /= nops;
            }
            idx.reverse();
            let mut m = init.fork();
            let mut path: Vec<M::Op> = Vec::new();
            let mut ok = true;
            let mut t = 0u64;
            for &i in &idx {
                let mut ops = Vec::new();
                m.ops(&mut ops);
                if i >= ops.len() {
                    ok = false;
                    break;
                }
                let op = ops[i].clone();
                path.push(op.clone());
                t += 1;
                if !step_checked(&mut m, &op, &path, &cfgv, &props_v, lc) {
                    ok = false;
                    break;
                }
            }
            if ok {
                let mut s = 0u64;
                dfs(&m, depth - pl, &mut path, &cfgv, &props_v, lc, &mut t, &mut s);
                seqs.fetch_add(s, std::sync::atomic::Ordering::Relaxed);
            }
            trans.fetch_add(t, std::sync::atomic::Ordering::Relaxed);
        }
    });
    let t = trans.into_inner();
    rep.transitions = total_before + t;
    rep.states += t + 1; // every node of the sequence tree is a visited state (no merging)
    rep.traces += t;
    rep.subruns.push(json!({
        "engine": "E1-sequences",
        "machine": M::NAME,
        "label": label,
        "config": cfgv,
        "depth": depth,
        "operations": nops,
        "complete_sequences": seqs.into_inner(),
        "transitions": t,
    }));
}

fn step_checked<M: Machine>(
    m: &mut M,
    op: &M::Op,
    path: &[M::Op],
    cfgv: &Value,
    props: &[&'static str],
    lc: &mut LocalCounts,
) -> bool {
    let mut out = StepOut::new();
    let r = std::panic::catch_unwind(std::panic::AssertUnwindSafe(|| {
        m.apply(op, &mut out);
    }));
    if let Err(e) = r {
        for p in props {
            lc.violation(Violation {
                prop: p,
                class: "panic".into(),
                detail: format!("the real code panicked: {}", panic_msg(&e)),
                machine: M::NAME,
                config: cfgv.clone(),
                ops: path.iter().map(|o| M::op_str(o)).collect(),
            });
        }
        return false;
    }
    for (k, c) in out.counts {
        lc.count(k, c);
    }
    for f in out.flags {
        if !props.contains(&f.prop) {
            continue;
        }
        let already = lc.per_class.get(&f.class).copied().unwrap_or(0);
        let ops = if already < PER_CLASS_CAP { path.iter().map(|o| M::op_str(o)).collect() } else { Vec::new() };
        lc.violation(Violation { prop: f.prop, class: f.class, detail: f.detail, machine: M::NAME, config: cfgv.clone(), ops });
    }
    true
}

fn dfs<M: Machine>(
    m: &M,
    depth: u32,
    path: &mut Vec<M::Op>,
    cfgv: &Value,
    props: &[&'static str],
    lc: &mut LocalCounts,
    t: &mut u64,
    seqs: &mut u64,
) {
    if depth == 0 {
        *seqs += 1;
        return;
    }
    let mut ops = Vec::new();
    m.ops(&mut ops);
    for op in ops {
        let mut n = m.fork();
        path.push(op.clone());
        *t += 1;
        if step_checked(&mut n, &op, path, cfgv, props, lc) {
            dfs(&n, depth - 1, path, cfgv, props, lc, t, seqs);
        }
        path.pop();
    }
}

/// replay a script on a machine built by `mk`, returning one observation line per op
pub fn run_script<M: Machine>(m: &mut M, ops: &[String], parse: &dyn Fn(&str) -> M::Op, obs: &dyn Fn(&M) -> String) -> Vec<String> {
    let mut lines = Vec::new();
    let mut step = 0u64;
    for (o, n) in expand_ops(ops) {
        let op = parse(&o);
        for i in 0..n {
            let mut out = StepOut::new();
            let r = std::panic::catch_unwind(std::panic::AssertUnwindSafe(|| m.apply(&op, &mut out)));
            step += 1;
            let quiet = n > 16 && i + 8 < n && i >= 4 && out.flags.is_empty() && r.is_ok();
            if !quiet {
                let mut l = format!("#{:<6} {:<28} -> {}", step, M::op_str(&op), obs(m));
                if let Err(e) = &r {
                    l.push_str(&format!("  PANIC: {}", panic_msg(e)));
                }
                for f in &out.flags {
                    l.push_str(&format!("\n        !! {} [{}] {}", f.prop, f.class, f.detail));
                }
                lines.push(l);
            }
            if r.is_err() {
                return lines;
            }
        }
    }
    lines
}

/// Debug / self-check helper: depth-first exploration (single thread) returning the set of reachable keys and,
/// for each key, the path that first reached it.
pub fn reach_dfs<M: Machine>(init: M) -> std::collections::HashMap<u128, Vec<String>> {
    let mut seen: std::collections::HashMap<u128, Vec<String>> = std::collections::HashMap::new();
    let mut stack: Vec<(M, Vec<String>)> = Vec::new();
    seen.insert(init.key(), vec![]);
    stack.push((init, vec![]));
    let mut ops = Vec::new();
    while let Some((m, path)) = stack.pop() {
        ops.clear();
        m.ops(&mut ops);
        for op in &ops {
            let mut n = m.fork();
            let mut out = StepOut::new();
            if std::panic::catch_unwind(std::panic::AssertUnwindSafe(|| n.apply(op, &mut out))).is_err() {
                continue;
            }
            let k = n.key();
            if !seen.contains_key(&k) {
                let mut p = path.clone();
                p.push(M::op_str(op));
                seen.insert(k, p.clone());
                stack.push((n, p));
            }
        }
    }
    seen
}

pub fn reach_bfs<M: Machine>(init: M) -> std::collections::HashMap<u128, Vec<String>> {
    let mut seen: std::collections::HashMap<u128, Vec<String>> = std::collections::HashMap::new();
    let mut q: std::collections::VecDeque<(M, Vec<String>)> = std::collections::VecDeque::new();
    seen.insert(init.key(), vec![]);
    q.push_back((init, vec![]));
    let mut ops = Vec::new();
    while let Some((m, path)) = q.pop_front() {
        ops.clear();
        m.ops(&mut ops);
        for op in &ops {
            let mut n = m.fork();
            let mut out = StepOut::new();
            if std::panic::catch_unwind(std::panic::AssertUnwindSafe(|| n.apply(op, &mut out))).is_err() {
                continue;
            }
            let k = n.key();
            if !seen.contains_key(&k) {
                let mut p = path.clone();
                p.push(M::op_str(op));
                seen.insert(k, p.clone());
                q.push_back((n, p));
            }
        }
    }
    seen
}

/// Find two machines with equal keys whose successor key lists differ (an incomplete key): bounded BFS that
/// recomputes the successor keys of every machine arriving at an already-known key.
pub fn find_key_incompleteness<M: Machine>(init: M, limit: usize) -> Option<(Vec<String>, Vec<String>, String)> {
    let succ = |m: &M| -> Vec<u128> {
        let mut ops = Vec::new();
        m.ops(&mut ops);
        ops.iter()
            .map(|op| {
                let mut n = m.fork();
                let mut out = StepOut::new();
                match std::panic::catch_unwind(std::panic::AssertUnwindSafe(|| n.apply(op, &mut out))) {
                    Ok(_) => n.key(),
                    Err(_) => 0,
                }
            })
            .collect()
    };
    // node table: (parent node, operation that reached it)
    let mut nodes: Vec<(usize, Option<M::Op>)> = vec![(usize::MAX, None)];
    let path = |nodes: &Vec<(usize, Option<M::Op>)>, mut id: usize, last: Option<&M::Op>| -> Vec<String> {
        let mut rev: Vec<String> = last.map(|o| vec![M::op_str(o)]).unwrap_or_default();
        while id != usize::MAX {
            if let Some(op) = &nodes[id].1 {
                rev.push(M::op_str(op));
            }
            id = nodes[id].0;
        }
        rev.reverse();
        rev
    };
    let mut seen: std::collections::HashMap<u128, (usize, Vec<u128>)> = std::collections::HashMap::new();
    let mut q: std::collections::VecDeque<(M, usize)> = std::collections::VecDeque::new();
    seen.insert(init.key(), (0, succ(&init)));
    q.push_back((init, 0));
    let mut ops = Vec::new();
    while let Some((m, id)) = q.pop_front() {
        if seen.len() > limit {
            break;
        }
        ops.clear();
        m.ops(&mut ops);
        for op in &ops {
            let mut n = m.fork();
            let mut out = StepOut::new();
            if std::panic::catch_unwind(std::panic::AssertUnwindSafe(|| n.apply(op, &mut out))).is_err() {
                continue;
            }
            let k = n.key();
            let s = succ(&n);
            if let Some((id0, s_old)) = seen.get(&k) {
                if *s_old != s {
                    let mut ops2 = Vec::new();
                    n.ops(&mut ops2);
                    let diff = s_old.iter().zip(s.iter()).enumerate().find(|(_, (a, b))| a != b).map(|(i, (a, b))| format!("operation #{} ({}) leads to {:032x} vs {:032x}", i, ops2.get(i).map(|o| M::op_str(o)).unwrap_or_default(), a, b)).unwrap_or_else(|| format!("different operation menus: {} vs {}", s_old.len(), s.len()));
                    return Some((path(&nodes, *id0, None), path(&nodes, id, Some(op)), diff));
                }
            } else {
                let nid = nodes.len();
                nodes.push((id, Some(op.clone())));
                seen.insert(k, (nid, s));
                q.push_back((n, nid));
            }
        }
    }
    None
}

/// Self-check used by the thorough tiers: a breadth-first walk over at most `limit` states that recomputes the
/// successor keys of every machine arriving at an already-known key and compares them with the first ones
/// (one-step bisimulation of the state key). A mismatch means the key hides state and is a machinery error.
pub fn key_selfcheck<M: Machine>(init: M, limit: usize, rep: &mut Report, label: &str) {
    match find_key_incompleteness(init, limit) {
        Some((a, b, d)) => rep.machinery(format!("{}: incomplete state key: histories [{}] and [{}] have equal keys but different successors ({})", label, a.join(","), b.join(","), d)),
        None => rep.count("state_key_selfchecks_passed", 1),
    }
}
