//! MIDI receiver: C04 (gate / note tracking), C05 (edge latches),
//! C06 (byte-stream framing), C18 (controllers and pitch bend)

use crate::common::*;
use crate::explore::*;
use serde_json::{json, Value};
use synth_utils::mono_midi_receiver::{MonoMidiReceiver, NotePriority, RetriggerMode};

pub type Finding = (&'static str, &'static str, String);

pub fn obs(m: &MonoMidiReceiver) -> [u32; 11] {
    crate::p_clamp::midi_obs(m)
}

fn obs_str(m: &MonoMidiReceiver) -> String {
    let s = m.verif_snapshot();
    format!(
        "gate={} note={} vel={:?} rising={} falling={} held={:?} bend={:?} mod={:?} vol={:?} cut={:?} res={:?} ptime={:?} porta={} sustain={}",
        m.gate(), m.note_num(), m.velocity(), s.rising_gate, s.falling_gate, &s.held_down_notes[..], m.pitch_bend(), m.mod_wheel(), m.volume(), m.vcf_cutoff(), m.vcf_resonance(), m.portamento_time(), m.portamento_enabled(), m.sustain_enabled()
    )
}

fn key_of(m: &MonoMidiReceiver, h: &mut Hash128) {
    for w in obs(m) {
        h.word(w as u64);
    }
    let s = m.verif_snapshot();
    h.word((s.rising_gate as u64) | (s.falling_gate as u64) << 1 | (s.allow_retrigger as u64) << 2 | (s.note_priority as u64) << 3 | (s.channel as u64) << 8);
    h.bytes(&s.held_down_notes);
    h.bytes(format!("{:?}", s.parser).as_bytes());
}

// ------------------------------------------------------------------ reference model

#[derive(Clone, PartialEq, Debug)]
pub struct Model {
    pub held: Vec<u8>,
    pub note: u8,
    pub vel: u8, // 0 = none yet
    pub prio: u8,
    pub retrig: bool,
    pub rising: bool,
    pub falling: bool,
    pub cc: [Option<u8>; 5], // mod, volume, cutoff, resonance, portamento time
    pub porta: bool,
    pub sustain: bool,
    pub bend: Option<u16>,
    pub edges_from_observed_gate: bool,
}

/// what a fresh receiver reports: the statements speak of "power-on defaults" without fixing them (only the pitch
/// bend of 0.0 is stated), so the defaults are read off the implementation
pub struct Defaults {
    pub cc: [f32; 5],
    pub porta: bool,
    pub sustain: bool,
    pub velocity: f32,
}

pub fn defaults() -> &'static Defaults {
    static D: std::sync::OnceLock<Defaults> = std::sync::OnceLock::new();
    D.get_or_init(|| {
        let rx = MonoMidiReceiver::new(0);
        Defaults { cc: [rx.mod_wheel(), rx.volume(), rx.vcf_cutoff(), rx.vcf_resonance(), rx.portamento_time()], porta: rx.portamento_enabled(), sustain: rx.sustain_enabled(), velocity: rx.velocity() }
    })
}

/// the implementation's pitch-bend map, read from fresh receivers: the statement fixes three points and strict
/// monotonicity (both checked on the sweep), not the curve in between; every history must reproduce this map
pub fn bend_table() -> &'static Vec<f32> {
    static T: std::sync::OnceLock<Vec<f32>> = std::sync::OnceLock::new();
    T.get_or_init(|| {
        (0..16384u32)
            .map(|v| {
                let mut rx = MonoMidiReceiver::new(0);
                for b in [0xE0u8, (v & 0x7f) as u8, (v >> 7) as u8] {
                    rx.parse(b);
                }
                rx.pitch_bend()
            })
            .collect()
    })
}

impl Model {
    pub fn new() -> Self {
        let d = defaults();
        Model { held: Vec::new(), note: 0, vel: 0, prio: 0, retrig: false, rising: false, falling: false, cc: [None; 5], porta: d.porta, sustain: d.sustain, bend: None, edges_from_observed_gate: false }
    }
    fn select(&self) -> u8 {
        match self.prio {
            0 => *self.held.last().unwrap(),
            1 => *self.held.iter().max().unwrap(),
            _ => *self.held.iter().min().unwrap(),
        }
    }
    pub fn gate(&self) -> bool {
        !self.held.is_empty()
    }
    pub fn note_on(&mut self, n: u8, v: u8) {
        let was = self.gate();
        self.vel = v;
        self.held.push(n);
        self.note = self.select();
        if !self.edges_from_observed_gate {
            if !was || self.retrig {
                self.rising = true;
            }
            self.falling = false;
        }
    }
    /// C05's latches defined on the gate() actually observed before and after a message (independent of the
    /// outstanding-note model, hence also meaningful beyond the 32 notes the receiver remembers)
    pub fn edges_observed(&mut self, gate_before: bool, gate_after: bool, is_note_on: bool) {
        if !self.edges_from_observed_gate {
            return;
        }
        if is_note_on {
            if (!gate_before && gate_after) || self.retrig {
                self.rising = true;
            }
            self.falling = false;
        }
        if gate_before && !gate_after {
            self.falling = true;
            self.rising = false;
        }
    }
    pub fn note_off(&mut self, n: u8) {
        let was = self.gate();
        self.held.retain(|x| *x != n);
        if self.held.is_empty() {
            if was && !self.edges_from_observed_gate {
                self.falling = true;
                self.rising = false;
            }
        } else {
            self.note = self.select();
        }
    }
    pub fn all_off(&mut self) {
        let was = self.gate();
        self.held.clear();
        if was && !self.edges_from_observed_gate {
            self.falling = true;
            self.rising = false;
        }
    }
    pub fn cc(&mut self, num: u8, val: u8) {
        match num {
            1 => self.cc[0] = Some(val),
            7 => self.cc[1] = Some(val),
            71 => self.cc[2] = Some(val),
            74 => self.cc[3] = Some(val),
            5 => self.cc[4] = Some(val),
            65 => self.porta = val >= 64,
            64 => self.sustain = val >= 64,
            121 => {
                self.cc = [None; 5];
                self.porta = defaults().porta;
                self.sustain = defaults().sustain;
                self.bend = None;
            }
            123 => self.all_off(),
            _ => {}
        }
    }
    fn bend_value(&self) -> f64 {
        match self.bend {
            None => 0.0,
            Some(v) => {
                let s = v as i32 - 8192;
                if s > 0 { s as f64 / 8191.0 } else { s as f64 / 8192.0 }
            }
        }
    }
}

/// a scaled controller / velocity / bend reading: within one ulp of the quotient, or within 2^-24 (half an ulp of
/// full scale) in absolute terms, so that fixed-point and reciprocal-multiply implementations are not flagged
fn near(a: f32, ideal: f64) -> bool {
    (a as f64 - ideal).abs() <= (ulp32(ideal as f32) as f64).max((2.0f64).powi(-24))
}

/// compare the public outputs of the real receiver with the model
pub fn compare(rx: &MonoMidiReceiver, m: &Model, out: &mut Vec<Finding>) {
    if rx.gate() != m.gate() {
        out.push(("C04", if m.gate() { "gate-low-with-notes-held" } else { "gate-high-with-nothing-held" }, format!("gate() = {} but outstanding note-ons are {:?}", rx.gate(), m.held)));
    }
    if rx.note_num() != m.note {
        out.push(("C04", "note-num", format!("note_num() = {} expected {} (outstanding {:?}, priority {})", rx.note_num(), m.note, m.held, ["last", "high", "low"][m.prio as usize])));
    }
    // before the first note-on the velocity is whatever a fresh receiver reports (vel 0 = none yet)
    let ev = if m.vel == 0 { defaults().velocity as f64 } else { m.vel as f64 / 127.0 };
    if !near(rx.velocity(), ev) {
        out.push(("C04", "velocity", format!("velocity() = {:?} expected {}/127", rx.velocity(), m.vel)));
    }
    let names = ["mod_wheel", "volume", "vcf_cutoff", "vcf_resonance", "portamento_time"];
    let got = [rx.mod_wheel(), rx.volume(), rx.vcf_cutoff(), rx.vcf_resonance(), rx.portamento_time()];
    for i in 0..5 {
        let e = m.cc[i].map(|v| v as f64 / 127.0).unwrap_or(defaults().cc[i] as f64);
        if !near(got[i], e) || (m.cc[i] == Some(127) && got[i] != 1.0) || (m.cc[i] == Some(0) && got[i] != 0.0) {
            out.push(("C18", "controller-value", format!("{}() = {:?} expected {:?}/127", names[i], got[i], m.cc[i])));
        }
    }
    if rx.portamento_enabled() != m.porta {
        out.push(("C18", "switch", format!("portamento_enabled() = {} expected {}", rx.portamento_enabled(), m.porta)));
    }
    if rx.sustain_enabled() != m.sustain {
        out.push(("C18", "switch", format!("sustain_enabled() = {} expected {}", rx.sustain_enabled(), m.sustain)));
    }
    let gb = rx.pitch_bend();
    let exact = matches!(m.bend, None | Some(8192) | Some(0) | Some(16383));
    let eb = if exact { m.bend_value() } else { bend_table()[m.bend.unwrap() as usize] as f64 };
    if (exact && gb as f64 != eb) || !near(gb, eb) {
        out.push(("C18", "pitch-bend", format!("pitch_bend() = {:?} expected {} for 14-bit value {:?}", gb, eb, m.bend)));
    }
}

// ------------------------------------------------------------------ message-level machine (C04, C05, C18 histories)

#[derive(Clone, Copy, Debug, PartialEq)]
pub enum MOp {
    On(u8, u8),
    Off(u8),
    OffV0(u8),
    AllOff,
    Foreign(u8),
    ForeignAllOff,
    Prio(u8),
    Retrig(bool),
    PollR,
    PollF,
    Cc(u8, u8),
    CcForeign(u8, u8),
    Bend(u16),
    BendForeign(u16),
}

#[derive(Clone)]
pub struct Alphabet {
    pub notes: Vec<u8>,
    pub vels: Vec<u8>,
    pub k: usize,
    pub modes: bool,
    pub polls: bool,
    pub ccs: Vec<(u8, u8)>,
    pub bends: Vec<u16>,
    pub foreign: bool,
    /// an extra note number that may be pressed only as the oldest entry (empty list) or when the list is within two of the bound:
    /// reaches the documented capacity with distinct note numbers at both ends without enumerating 2^32 lists
    pub edge_note: Option<u8>,
}

pub struct MidiM {
    pub rx: MonoMidiReceiver,
    pub m: Model,
    pub ch: u8,
    pub alpha: std::sync::Arc<Alphabet>,
}

impl MidiM {
    pub fn new(ch: u8, alpha: Alphabet) -> Self {
        MidiM { rx: MonoMidiReceiver::new(ch), m: Model::new(), ch, alpha: std::sync::Arc::new(alpha) }
    }
    /// C05 variant: the edge latches of the reference follow the observed gate()
    pub fn observed_edges(mut self) -> Self {
        self.m.edges_from_observed_gate = true;
        self
    }
    fn send(&mut self, bytes: &[u8]) {
        for b in bytes {
            self.rx.parse(*b);
        }
    }
}

impl Machine for MidiM {
    type Op = MOp;
    const NAME: &'static str = "midi";
    fn config(&self) -> Value {
        json!({"channel": self.ch})
    }
    fn ops(&self, out: &mut Vec<MOp>) {
        let a = &self.alpha;
        if self.m.held.len() < a.k {
            for n in &a.notes {
                for v in &a.vels {
                    out.push(MOp::On(*n, *v));
                }
            }
            if let Some(e) = a.edge_note {
                if self.m.held.is_empty() || self.m.held.len() + 2 >= a.k {
                    out.push(MOp::On(e, a.vels[0]));
                }
            }
        }
        if let Some(e) = a.edge_note {
            out.push(MOp::Off(e));
        }
        for n in &a.notes {
            out.push(MOp::Off(*n));
            out.push(MOp::OffV0(*n));
        }
        out.push(MOp::AllOff);
        if a.polls {
            out.push(MOp::PollR);
            out.push(MOp::PollF);
        }
        if a.foreign {
            out.push(MOp::Foreign(a.notes[0]));
            out.push(MOp::ForeignAllOff);
        }
        if a.modes {
            for p in 0..3 {
                out.push(MOp::Prio(p));
            }
            out.push(MOp::Retrig(true));
            out.push(MOp::Retrig(false));
        }
        for (c, v) in &a.ccs {
            out.push(MOp::Cc(*c, *v));
        }
        if a.foreign && !a.ccs.is_empty() {
            out.push(MOp::CcForeign(1, 99));
            out.push(MOp::CcForeign(121, 0));
            out.push(MOp::BendForeign(1234));
        }
        for b in &a.bends {
            out.push(MOp::Bend(*b));
        }
    }
    fn apply(&mut self, op: &MOp, out: &mut StepOut) {
        let ch = self.ch;
        let fch = (ch + 1) % 16;
        let mut fnd: Vec<Finding> = Vec::new();
        let gate_before = self.m.gate();
        let real_gate_before = self.rx.gate();
        match *op {
            MOp::On(n, v) => {
                if self.m.held.contains(&n) {
                    out.count("duplicate_note_on");
                }
                self.send(&[0x90 | ch, n, v]);
                self.m.note_on(n, v);
            }
            MOp::Off(n) | MOp::OffV0(n) => {
                if !self.m.held.contains(&n) {
                    out.count("note_off_of_note_not_held");
                    if !gate_before {
                        out.count("note_off_with_gate_low");
                    }
                } else if self.m.held.last() != Some(&n) {
                    out.count("release_of_non_last_note");
                }
                if let MOp::Off(_) = op {
                    // the release velocity carries no meaning: 64, 0, 127, 1 depending on the note number
                    self.send(&[0x80 | ch, n, [64u8, 0, 127, 1][n as usize % 4]]);
                } else {
                    self.send(&[0x90 | ch, n, 0]);
                }
                self.m.note_off(n);
                if gate_before && !self.m.gate() {
                    out.count("gate_dropped_by_note_off");
                }
            }
            MOp::AllOff => {
                if self.m.held.len() >= 2 {
                    out.count("all_notes_off_with_two_or_more_held");
                }
                if gate_before {
                    out.count("gate_dropped_by_all_notes_off");
                } else if self.m.falling {
                    out.count("all_notes_off_with_pending_falling_edge");
                }
                // the data byte of All-Notes-Off carries no meaning either
                self.send(&[0xB0 | ch, 123, [0u8, 64, 127][self.m.held.len() % 3]]);
                self.m.all_off();
            }
            MOp::Foreign(n) => {
                self.send(&[0x90 | fch, n, 100]);
                out.count("foreign_channel_messages");
            }
            MOp::ForeignAllOff => {
                self.send(&[0xB0 | fch, 123, 0]);
                out.count("foreign_channel_messages");
            }
            MOp::Prio(p) => {
                if self.m.held.len() >= 2 && p != self.m.prio {
                    out.count("priority_switched_while_notes_held");
                }
                self.rx.set_note_priority(match p {
                    0 => NotePriority::Last,
                    1 => NotePriority::High,
                    _ => NotePriority::Low,
                });
                self.m.prio = p;
            }
            MOp::Retrig(r) => {
                self.rx.set_retrigger_mode(if r { RetriggerMode::AllowRetrigger } else { RetriggerMode::NoRetrigger });
                self.m.retrig = r;
            }
            MOp::PollR => {
                let got = self.rx.rising_gate();
                let exp = self.m.rising;
                self.m.rising = false;
                out.count("rising_polls");
                if exp {
                    out.count("rising_polls_expected_true");
                }
                if got != exp {
                    fnd.push(("C05", if got { "spurious-rising-edge" } else { "missing-rising-edge" }, format!("rising_gate() returned {} expected {}", got, exp)));
                }
                if got && !self.rx.gate() {
                    fnd.push(("C05", "rising-edge-with-gate-low", "rising_gate() returned true while gate() is false".into()));
                }
            }
            MOp::PollF => {
                let got = self.rx.falling_gate();
                let exp = self.m.falling;
                self.m.falling = false;
                out.count("falling_polls");
                if exp {
                    out.count("falling_polls_expected_true");
                }
                if got != exp {
                    fnd.push(("C05", if got { "spurious-falling-edge" } else { "missing-falling-edge" }, format!("falling_gate() returned {} expected {}", got, exp)));
                }
                if got && self.rx.gate() {
                    fnd.push(("C05", "falling-edge-with-gate-high", "falling_gate() returned true while gate() is true".into()));
                }
            }
            MOp::Cc(c, v) => {
                self.send(&[0xB0 | ch, c, v]);
                self.m.cc(c, v);
                out.count("controller_messages");
            }
            MOp::CcForeign(c, v) => {
                self.send(&[0xB0 | fch, c, v]);
                out.count("foreign_channel_messages");
            }
            MOp::Bend(b) => {
                self.send(&[0xE0 | ch, (b & 0x7f) as u8, (b >> 7) as u8]);
                self.m.bend = Some(b);
                out.count("pitch_bend_messages");
            }
            MOp::BendForeign(b) => {
                self.send(&[0xE0 | fch, (b & 0x7f) as u8, (b >> 7) as u8]);
                out.count("foreign_channel_messages");
            }
        }
        if !matches!(op, MOp::PollR | MOp::PollF) {
            self.m.edges_observed(real_gate_before, self.rx.gate(), matches!(op, MOp::On(_, _)));
        }
        compare(&self.rx, &self.m, &mut fnd);
        out.obs = (self.rx.gate() as u64) << 8 | self.rx.note_num() as u64;
        for (p, c, d) in fnd {
            out.flag(p, c, d);
        }
    }
    fn key(&self) -> u128 {
        let mut h = Hash128::new();
        key_of(&self.rx, &mut h);
        h.bytes(&self.m.held);
        h.word(self.m.note as u64 | (self.m.vel as u64) << 8 | (self.m.prio as u64) << 16 | (self.m.retrig as u64) << 20 | (self.m.rising as u64) << 21 | (self.m.falling as u64) << 22 | (self.m.porta as u64) << 23 | (self.m.sustain as u64) << 24);
        for c in self.m.cc {
            h.word(c.map(|v| v as u64 + 1).unwrap_or(0));
        }
        h.word(self.m.bend.map(|v| v as u64 + 1).unwrap_or(0) | (self.m.edges_from_observed_gate as u64) << 40);
        h.finish()
    }
    fn fork(&self) -> Self {
        MidiM { rx: self.rx.verif_clone(), m: self.m.clone(), ch: self.ch, alpha: self.alpha.clone() }
    }
    fn op_str(op: &MOp) -> String {
        match *op {
            MOp::On(n, v) => format!("on:{}:{}", n, v),
            MOp::Off(n) => format!("off:{}", n),
            MOp::OffV0(n) => format!("on:{}:0", n),
            MOp::AllOff => "all_notes_off".into(),
            MOp::Foreign(n) => format!("foreign_on:{}", n),
            MOp::ForeignAllOff => "foreign_all_notes_off".into(),
            MOp::Prio(p) => format!("priority:{}", ["last", "high", "low"][p as usize]),
            MOp::Retrig(r) => format!("retrigger:{}", r),
            MOp::PollR => "poll_rising".into(),
            MOp::PollF => "poll_falling".into(),
            MOp::Cc(c, v) => format!("cc:{}:{}", c, v),
            MOp::CcForeign(c, v) => format!("foreign_cc:{}:{}", c, v),
            MOp::Bend(b) => format!("bend:{}", b),
            MOp::BendForeign(b) => format!("foreign_bend:{}", b),
        }
    }
}

pub fn parse_op(s: &str) -> MOp {
    let p: Vec<&str> = s.split(':').collect();
    let n = |i: usize| -> u32 { p[i].parse().unwrap() };
    match p[0] {
        "on" => {
            if n(2) == 0 {
                MOp::OffV0(n(1) as u8)
            } else {
                MOp::On(n(1) as u8, n(2) as u8)
            }
        }
        "off" => MOp::Off(n(1) as u8),
        "all_notes_off" => MOp::AllOff,
        "foreign_on" => MOp::Foreign(n(1) as u8),
        "foreign_all_notes_off" => MOp::ForeignAllOff,
        "priority" => MOp::Prio(match p[1] {
            "last" => 0,
            "high" => 1,
            _ => 2,
        }),
        "retrigger" => MOp::Retrig(p[1] == "true"),
        "poll_rising" => MOp::PollR,
        "poll_falling" => MOp::PollF,
        "cc" => MOp::Cc(n(1) as u8, n(2) as u8),
        "foreign_cc" => MOp::CcForeign(n(1) as u8, n(2) as u8),
        "bend" => MOp::Bend(n(1) as u16),
        "foreign_bend" => MOp::BendForeign(n(1) as u16),
        _ => panic!("unknown midi op {}", s),
    }
}

pub fn replay(config: &Value, ops: &[String]) -> Vec<String> {
    let ch = config["channel"].as_u64().unwrap_or(0) as u8;
    if ops.iter().any(|o| o.starts_with("byte:")) {
        return replay_bytes(ch, ops);
    }
    let mut m = MidiM::new(ch, Alphabet { notes: vec![], vels: vec![], k: 32, modes: true, polls: true, ccs: vec![], bends: vec![], foreign: true, edge_note: None });
    run_script(&mut m, ops, &parse_op, &|m: &MidiM| obs_str(&m.rx))
}

fn main_alphabet(k: usize) -> Alphabet {
    Alphabet { notes: vec![5, 64, 127], vels: vec![1, 127], k, modes: true, polls: false, ccs: vec![], bends: vec![], foreign: true, edge_note: None }
}

fn run_m(ctx: &Ctx, rep: &mut Report, ch: u8, a: Alphabet, label: &str, props: &[&'static str]) -> ExploreResult {
    let r = explore(MidiM::new(ch, a), &ExploreCfg { max_depth: None, state_cap: 60_000_000, threads: ctx.threads, label: label.to_string() }, rep, props);
    if !r.fixpoint && !r.cap_hit && !r.stopped {
        rep.machinery(format!("{}: exploration ended without reaching a fixpoint", label));
    }
    r
}

/// short cycles of note messages (and polls) repeated more often than a 16-bit counter holds, judged by the model
fn long_runs(ctx: &Ctx, rep: &mut Report, props: &[&'static str], with_polls: bool) {
    let mut cycles: Vec<Vec<MOp>> = vec![
        vec![MOp::On(60, 100), MOp::Off(60)],
        vec![MOp::On(60, 100), MOp::On(64, 90), MOp::Off(60), MOp::OffV0(64)],
        vec![MOp::On(60, 100), MOp::On(60, 101), MOp::AllOff],
        vec![MOp::On(72, 1), MOp::Prio(1), MOp::On(48, 127), MOp::Prio(2), MOp::Off(72), MOp::Prio(0), MOp::Off(48)],
    ];
    if with_polls {
        cycles = vec![
            vec![MOp::On(60, 100), MOp::PollR, MOp::Off(60), MOp::PollF],
            vec![MOp::On(60, 100), MOp::Off(60), MOp::PollR, MOp::PollF],
            vec![MOp::Retrig(true), MOp::On(60, 100), MOp::On(64, 90), MOp::PollR, MOp::AllOff, MOp::PollF, MOp::PollR],
            vec![MOp::On(60, 100), MOp::PollR, MOp::PollR, MOp::On(61, 100), MOp::PollR, MOp::Off(60), MOp::PollF, MOp::Off(61), MOp::PollF, MOp::PollF],
        ];
    }
    // cycles during which keys stay down all the time (a drone under a trill / an arpeggio): the first cycle presses
    // the drone keys, every later cycle starts with a note-off of a key that is not held (a no-op)
    let drones: usize = cycles.len();
    if with_polls {
        cycles.push(vec![MOp::Off(1), MOp::On(61, 80), MOp::PollR, MOp::Off(61), MOp::PollF, MOp::PollR]);
        cycles.push(vec![MOp::Off(1), MOp::On(61, 80), MOp::On(62, 80), MOp::PollR, MOp::On(63, 3), MOp::Off(62), MOp::PollR, MOp::Off(61), MOp::Off(63), MOp::PollF]);
        // exactly 256 (and 255, 257) note-ons in retrigger mode between two reads of the rising edge, gate high throughout
        for k in [255usize, 256, 257] {
            let mut c = vec![MOp::Off(1), MOp::Retrig(true)];
            for _ in 0..k {
                c.push(MOp::On(61, 80));
                c.push(MOp::Off(61));
            }
            c.push(MOp::PollR);
            c.push(MOp::PollR);
            c.push(MOp::PollF);
            cycles.push(c);
        }
    } else {
        cycles.push(vec![MOp::Off(1), MOp::On(61, 80), MOp::Off(61)]);
        cycles.push(vec![MOp::Off(1), MOp::On(61, 80), MOp::On(62, 80), MOp::On(63, 3), MOp::Off(62), MOp::Off(61), MOp::Off(63)]);
        cycles.push(vec![MOp::Off(1), MOp::On(61, 80), MOp::On(61, 81), MOp::Off(61), MOp::Prio(1), MOp::On(90, 9), MOp::Prio(2), MOp::Off(90), MOp::Prio(0)]);
    }
    let cr = &cycles;
    let pv: Vec<&'static str> = props.to_vec();
    let pr = &pv;
    par_ranges(ctx, rep, cycles.len() as u64, cycles.len() as u64, |_, lo, hi, lc| {
        for j in lo..hi {
            let mut m = MidiM::new(4, Alphabet { notes: vec![], vels: vec![], k: 32, modes: true, polls: true, ccs: vec![], bends: vec![], foreign: false, edge_note: None });
            let cyc = &cr[j as usize];
            let drone: Vec<MOp> = if j as usize >= drones { vec![MOp::On(72, 100), MOp::On(50, 90)] } else { vec![] };
            for op in &drone {
                let mut out = StepOut::new();
                m.apply(op, &mut out);
            }
            let reps: u64 = if cyc.len() > 100 { 260 } else { 66_000 };
            'run: for n in 0..reps {
                for op in cyc {
                    let mut out = StepOut::new();
                    let r = std::panic::catch_unwind(std::panic::AssertUnwindSafe(|| m.apply(op, &mut out)));
                    lc.count("long_run_operations", 1);
                    let ops_done = || -> Vec<String> {
                        let mut v: Vec<String> = drone.iter().map(MidiM::op_str).collect();
                        for _ in 0..=n {
                            v.extend(cyc.iter().map(MidiM::op_str));
                        }
                        v
                    };
                    if let Err(e) = r {
                        for p in pr.iter() {
                            lc.violation(Violation { prop: p, class: "panic".into(), detail: format!("the real code panicked: {}", panic_msg(&e)), machine: "midi", config: json!({"channel": 4}), ops: ops_done() });
                        }
                        break 'run;
                    }
                    for f in out.flags {
                        if pr.contains(&f.prop) {
                            lc.violation(Violation { prop: f.prop, class: format!("{}-in-a-long-run", f.class), detail: format!("{} (cycle {} of a repeated sequence)", f.detail, n + 1), machine: "midi", config: json!({"channel": 4}), ops: ops_done() });
                            break 'run;
                        }
                    }
                }
            }
        }
    });
}

// ------------------------------------------------------------------ C04

pub fn c04(ctx: &Ctx) -> Report {
    let mut rep = Report::new();
    let p = &["C04"];
    rep.rule.push("E1: BFS to fixpoint over whole note messages (note-on, both spellings of note-off, All-Notes-Off, foreign-channel traffic, priority and retrigger switches) delivered byte by byte to the real receiver, bounded by K outstanding note-ons; after every message gate(), note_num() and velocity() must equal a Vec-of-outstanding-note-ons reference model; non-trivial = transitions that release a non-last note, repeat a held note, release a note not held, clear >= 2 notes at once or switch priority with >= 2 notes held".into());
    if ctx.tier.is_thorough() {
        run_m(ctx, &mut rep, 0, main_alphabet(8), "notes {5,64,127} x velocities {1,127}, K=8", p);
        run_m(ctx, &mut rep, 3, Alphabet { notes: vec![0, 5, 64, 127], vels: vec![100], ..main_alphabet(6) }, "4 notes, K=6", p);
        run_m(ctx, &mut rep, 7, Alphabet { notes: vec![60, 61], vels: vec![64], ..main_alphabet(10) }, "2 notes, K=10", p);
        run_m(ctx, &mut rep, 15, Alphabet { notes: vec![60], vels: vec![1, 127], ..main_alphabet(32) }, "1 note up to the documented capacity, K=32", p);
        run_m(ctx, &mut rep, 4, Alphabet { notes: vec![60], vels: vec![100], edge_note: Some(40), ..main_alphabet(32) }, "capacity K=32 with a lower note as oldest / newest entry", p);
        run_m(ctx, &mut rep, 4, Alphabet { notes: vec![60], vels: vec![100], edge_note: Some(90), ..main_alphabet(32) }, "capacity K=32 with a higher note as oldest / newest entry", p);
        for ch in 0..16u8 {
            run_m(ctx, &mut rep, ch, main_alphabet(2), &format!("channel {}, K=2", ch), p);
        }
    } else {
        run_m(ctx, &mut rep, 0, main_alphabet(6), "notes {5,64,127} x velocities {1,127}, K=6", p);
        run_m(ctx, &mut rep, 7, Alphabet { notes: vec![60, 61], vels: vec![64], ..main_alphabet(10) }, "2 notes, K=10", p);
        run_m(ctx, &mut rep, 15, Alphabet { notes: vec![60], vels: vec![1, 127], ..main_alphabet(32) }, "1 note up to the documented capacity, K=32", p);
        run_m(ctx, &mut rep, 4, Alphabet { notes: vec![60], vels: vec![100], edge_note: Some(40), ..main_alphabet(32) }, "capacity K=32 with a lower note as oldest / newest entry", p);
        for ch in [0u8, 9, 15] {
            run_m(ctx, &mut rep, ch, main_alphabet(2), &format!("channel {}, K=2", ch), p);
        }
    }
    // every note number and every velocity: all (n1, n2) pairs x four third notes x 3 priorities x 2 retrigger modes,
    // one fixed script of eight note messages each, judged by the same model after every message
    {
        let pv: Vec<&'static str> = p.to_vec();
        let pr = &pv;
        par_ranges(ctx, &mut rep, 128 * 128, 256, |_, lo, hi, lc| {
            for i in lo..hi {
                let n1 = (i / 128) as u8;
                let n2 = (i % 128) as u8;
                for n3 in [0u8, 127, n1, ((n1 as u16 + n2 as u16) / 2) as u8] {
                    for mode in 0..6u8 {
                        let ch = ((n1 as u16 * 5 + n2 as u16 + mode as u16) % 16) as u8;
                        let mut m = MidiM::new(ch, Alphabet { notes: vec![], vels: vec![], k: 32, modes: true, polls: false, ccs: vec![], bends: vec![], foreign: false, edge_note: None });
                        let v = |k: u32| -> u8 { (1 + (n1 as u32 * 7 + n2 as u32 * 3 + n3 as u32 + k * 31 + mode as u32) % 127) as u8 };
                        let script = [MOp::Prio(mode % 3), MOp::Retrig(mode >= 3), MOp::On(n1, v(0)), MOp::On(n2, v(1)), MOp::On(n3, v(2)), MOp::Off(n2), MOp::On(n2, v(3)), MOp::OffV0(n1), MOp::Off(n3), MOp::Off(n2)];
                        for (k, op) in script.iter().enumerate() {
                            let mut out = StepOut::new();
                            let r = std::panic::catch_unwind(std::panic::AssertUnwindSafe(|| m.apply(op, &mut out)));
                            lc.count("note_sweep_messages", 1);
                            let ops = || script[..=k].iter().map(MidiM::op_str).collect::<Vec<_>>();
                            if let Err(e) = r {
                                lc.violation(Violation { prop: "C04", class: "panic".into(), detail: format!("the real code panicked: {}", panic_msg(&e)), machine: "midi", config: json!({"channel": ch}), ops: ops() });
                                break;
                            }
                            let mut stop = false;
                            for f in out.flags {
                                if pr.contains(&f.prop) {
                                    lc.violation(Violation { prop: f.prop, class: f.class, detail: f.detail, machine: "midi", config: json!({"channel": ch}), ops: ops() });
                                    stop = true;
                                }
                            }
                            if stop {
                                break;
                            }
                        }
                    }
                }
            }
        });
        let n = rep.counters.get("note_sweep_messages").copied().unwrap_or(0);
        rep.evaluations += n;
        rep.transitions += n;
        rep.traces += n;
        rep.subruns.push(json!({"engine": "E2-sweep", "what": "all 128 x 128 note-number pairs x 4 third notes x 6 mode combinations, 8-message script, velocities cycling through 1..127, channel cycling through 0..15", "messages": n}));
    }
    long_runs(ctx, &mut rep, p, false);
    // complement without state matching: every operation sequence up to a depth (immune to an incomplete state key)
    enumerate_sequences(&MidiM::new(0, Alphabet { notes: vec![5, 64], vels: vec![100], ..main_alphabet(4) }), if ctx.tier.is_thorough() { 6 } else { 5 }, ctx, &mut rep, p, "all message sequences, no state matching");
    if ctx.tier.is_thorough() {
        crate::sr::cross_check_midi(ctx, &mut rep, main_alphabet(4), &["C04"]);
        key_selfcheck(MidiM::new(0, main_alphabet(3)), 300_000, &mut rep, "midi message machine");
    }
    let nt = ["release_of_non_last_note", "duplicate_note_on", "note_off_of_note_not_held", "all_notes_off_with_two_or_more_held", "priority_switched_while_notes_held"];
    rep.nontrivial = nt.iter().map(|k| rep.counters.get(*k).copied().unwrap_or(0)).sum();
    for k in nt {
        rep.require_nonzero(k);
    }
    rep.require_nonzero("foreign_channel_messages");
    rep
}

// ------------------------------------------------------------------ C05

pub fn c05(ctx: &Ctx) -> Report {
    let mut rep = Report::new();
    let p = &["C05"];
    rep.rule.push("E1: BFS to fixpoint over note messages, All-Notes-Off, mode switches and the two self-clearing edge polls as ordinary operations (so a poll occurs at every position and with any number of messages between polls); every poll result must equal the reference latch (rising: set by a note-on that finds the gate low or arrives in retrigger mode, cleared by a gate drop or a read; falling: set by every true->false gate change, cleared by a note-on or a read); non-trivial = polls for which the reference expects true".into());
    let polls = |k: usize| Alphabet { polls: true, ..main_alphabet(k) };
    if ctx.tier.is_thorough() {
        run_m(ctx, &mut rep, 0, polls(7), "notes {5,64,127} x velocities {1,127}, K=7, with polls", p);
        run_m(ctx, &mut rep, 9, Alphabet { notes: vec![60, 61], vels: vec![64], ..polls(8) }, "2 notes, K=8, with polls", p);
        run_m(ctx, &mut rep, 15, Alphabet { notes: vec![60], vels: vec![100], ..polls(32) }, "1 note, K=32, with polls", p);
        crate::sr::cross_check_midi(ctx, &mut rep, polls(3), &["C05"]);
        key_selfcheck(MidiM::new(0, polls(2)), 300_000, &mut rep, "midi message machine with polls");
    } else {
        run_m(ctx, &mut rep, 0, polls(4), "notes {5,64,127} x velocities {1,127}, K=4, with polls", p);
        run_m(ctx, &mut rep, 15, Alphabet { notes: vec![60], vels: vec![100], ..polls(8) }, "1 note, K=8, with polls", p);
        run_m(ctx, &mut rep, 4, Alphabet { notes: vec![60], vels: vec![100], edge_note: Some(40), modes: false, ..polls(32) }, "capacity K=32 with a second note as oldest / newest entry, with polls", p);
    }
    // the same latches defined on the observed gate(), which stays meaningful when more keys are down than the
    // receiver remembers (here up to 36): retrigger mode switch, polls, a second note number at both ends
    {
        let a = Alphabet { notes: vec![60], vels: vec![100], edge_note: Some(40), modes: true, ..polls(36) };
        let m = MidiM::new(2, a.clone()).observed_edges();
        let r = explore(m, &ExploreCfg { max_depth: None, state_cap: 30_000_000, threads: ctx.threads, label: "edges relative to the observed gate, up to 36 outstanding note-ons".into() }, &mut rep, p);
        if !r.fixpoint && !r.cap_hit && !r.stopped {
            rep.machinery("observed-gate exploration ended without a fixpoint".into());
        }
        let a2 = Alphabet { modes: true, ..polls(3) };
        explore(MidiM::new(0, a2).observed_edges(), &ExploreCfg { max_depth: None, state_cap: 30_000_000, threads: ctx.threads, label: "edges relative to the observed gate, main alphabet K=3 with mode switches".into() }, &mut rep, p);
    }
    // every velocity with polls (the alphabets above use two): a velocity must not decide whether an edge is raised
    par_ranges(ctx, &mut rep, 127 * 2, 64, |_, lo, hi, lc| {
        for i in lo..hi {
            let v = (i / 2 + 1) as u8;
            let retrig = i % 2 == 1;
            let mut m = MidiM::new(7, Alphabet { notes: vec![], vels: vec![], k: 32, modes: true, polls: true, ccs: vec![], bends: vec![], foreign: false, edge_note: None });
            let ops = [MOp::Retrig(retrig), MOp::On(60, v), MOp::PollR, MOp::PollR, MOp::On(64, 128 - v), MOp::PollR, MOp::Off(60), MOp::PollF, MOp::On(60, v), MOp::PollR, MOp::Off(64), MOp::Off(60), MOp::PollF, MOp::PollF, MOp::PollR];
            for (n, op) in ops.iter().enumerate() {
                let mut out = StepOut::new();
                let r = std::panic::catch_unwind(std::panic::AssertUnwindSafe(|| m.apply(op, &mut out)));
                let script = || ops[..=n].iter().map(MidiM::op_str).collect::<Vec<_>>();
                if let Err(e) = r {
                    lc.violation(Violation { prop: "C05", class: "panic".into(), detail: format!("the real code panicked: {}", panic_msg(&e)), machine: "midi", config: json!({"channel": 7}), ops: script() });
                    break;
                }
                let mut stop = false;
                for f in out.flags {
                    if f.prop == "C05" {
                        lc.violation(Violation { prop: "C05", class: f.class, detail: f.detail, machine: "midi", config: json!({"channel": 7}), ops: script() });
                        stop = true;
                    }
                }
                if stop {
                    break;
                }
            }
            lc.count("velocity_poll_scripts", 1);
        }
    });
    long_runs(ctx, &mut rep, p, true);
    enumerate_sequences(&MidiM::new(0, Alphabet { notes: vec![5, 64], vels: vec![100], modes: false, foreign: false, ..polls(4) }), if ctx.tier.is_thorough() { 7 } else { 6 }, ctx, &mut rep, p, "all message / poll sequences, no state matching");
    rep.nontrivial = rep.counters.get("rising_polls_expected_true").copied().unwrap_or(0) + rep.counters.get("falling_polls_expected_true").copied().unwrap_or(0);
    for k in ["rising_polls_expected_true", "falling_polls_expected_true", "gate_dropped_by_all_notes_off", "gate_dropped_by_note_off", "note_off_with_gate_low", "all_notes_off_with_pending_falling_edge"] {
        rep.require_nonzero(k);
    }
    rep
}

// ------------------------------------------------------------------ C06: independent MIDI 1.0 stream decoder + twin receivers

#[derive(Clone, PartialEq, Debug)]
pub struct Decoder {
    running: Option<u8>,
    data: Vec<u8>,
    in_sysex: bool,
}

impl Decoder {
    pub fn new() -> Self {
        Decoder { running: None, data: Vec::new(), in_sysex: false }
    }
    /// returns a complete channel message (status, d1, d2) when one ends with this byte
    pub fn feed(&mut self, b: u8) -> Option<(u8, u8, u8)> {
        if b >= 0xF8 {
            return None; // system real-time: transparent
        }
        if b >= 0x80 {
            self.data.clear(); // a status byte aborts a partial message
            if b < 0xF0 {
                self.running = Some(b);
                self.in_sysex = false;
            } else {
                self.running = None; // system common cancels running status
                self.in_sysex = b == 0xF0;
            }
            return None;
        }
        if self.in_sysex {
            return None;
        }
        let st = self.running?;
        self.data.push(b);
        let need = if st & 0xF0 == 0xC0 || st & 0xF0 == 0xD0 { 1 } else { 2 };
        if self.data.len() == need {
            let d1 = self.data[0];
            let d2 = if need == 2 { self.data[1] } else { 0 };
            self.data.clear();
            return Some((st, d1, d2));
        }
        None
    }
}

pub struct Twin {
    pub a: MonoMidiReceiver,
    pub b: MonoMidiReceiver,
    pub dec: Decoder,
    pub ch: u8,
}

impl Twin {
    pub fn new(ch: u8) -> Self {
        Twin { a: MonoMidiReceiver::new(ch), b: MonoMidiReceiver::new(ch), dec: Decoder::new(), ch }
    }
    /// feed one byte; Some(detail) when the two receivers disagree afterwards
    pub fn step(&mut self, byte: u8) -> Option<String> {
        self.a.parse(byte);
        if let Some((st, d1, d2)) = self.dec.feed(byte) {
            let kind = st & 0xF0;
            if st & 0x0F == self.ch.min(15) && (kind == 0x80 || kind == 0x90 || kind == 0xB0 || kind == 0xE0) {
                self.b.parse(st);
                self.b.parse(d1);
                self.b.parse(d2);
            }
        }
        self.diff()
    }
    pub fn diff(&self) -> Option<String> {
        let oa = obs(&self.a);
        let ob = obs(&self.b);
        let sa = self.a.verif_snapshot();
        let sb = self.b.verif_snapshot();
        if oa != ob || sa.rising_gate != sb.rising_gate || sa.falling_gate != sb.falling_gate || sa.held_down_notes != sb.held_down_notes {
            Some(format!("receiver fed the raw stream: [{}]; receiver fed the decoded messages: [{}]", obs_str(&self.a), obs_str(&self.b)))
        } else {
            None
        }
    }
    pub fn poll_both(&mut self) -> Option<String> {
        let r = (self.a.rising_gate(), self.b.rising_gate());
        let f = (self.a.falling_gate(), self.b.falling_gate());
        if r.0 != r.1 || f.0 != f.1 {
            Some(format!("edge polls differ: rising {:?} falling {:?}", r, f))
        } else {
            None
        }
    }
}

fn classify(stream: &[u8], pos: usize) -> &'static str {
    let b = stream[pos];
    if b >= 0xF8 {
        "real-time-byte-not-transparent"
    } else if b >= 0xF0 {
        "system-common-handling"
    } else if b >= 0x80 {
        "status-byte-handling"
    } else {
        "data-byte-handling"
    }
}

/// run one stream on a twin; on divergence or panic report a violation
fn run_stream(ch: u8, stream: &[u8], lc: &mut LocalCounts) {
    let mut t = Twin::new(ch);
    for (i, b) in stream.iter().enumerate() {
        let r = std::panic::catch_unwind(std::panic::AssertUnwindSafe(|| t.step(*b)));
        lc.count("bytes_fed", 1);
        match r {
            Err(e) => {
                lc.violation(Violation { prop: "C06", class: "panic".into(), detail: format!("parse panicked: {}", panic_msg(&e)), machine: "midi", config: json!({"channel": ch}), ops: stream[..=i].iter().map(|b| format!("byte:{}", b)).collect() });
                return;
            }
            Ok(Some(d)) => {
                lc.violation(Violation { prop: "C06", class: classify(stream, i).into(), detail: format!("after byte #{} ({:#04x}): {}", i + 1, b, d), machine: "midi", config: json!({"channel": ch}), ops: stream[..=i].iter().map(|b| format!("byte:{}", b)).collect() });
                return;
            }
            Ok(None) => {}
        }
    }
    if let Some(d) = t.poll_both() {
        let mut ops: Vec<String> = stream.iter().map(|b| format!("byte:{}", b)).collect();
        ops.push("byte:poll".into());
        lc.violation(Violation { prop: "C06", class: "edge-latches".into(), detail: d, machine: "midi", config: json!({"channel": ch}), ops });
    }
    lc.count("streams", 1);
    if t.a.gate() || t.a.verif_snapshot().falling_gate || t.a.mod_wheel() != 0.0 || t.a.pitch_bend() != 0.0 {
        lc.count("streams_with_an_observable_effect", 1);
    }
}

fn replay_bytes(ch: u8, ops: &[String]) -> Vec<String> {
    let mut t = Twin::new(ch);
    let mut lines = Vec::new();
    let expanded: Vec<String> = expand_ops(ops).into_iter().flat_map(|(o, n)| std::iter::repeat(o).take(n as usize)).collect();
    let total = expanded.len();
    for (i, o) in expanded.iter().enumerate() {
        let v = o.strip_prefix("byte:").unwrap_or("0");
        if v == "poll" {
            let d = t.poll_both();
            lines.push(format!("#{:<3} poll both{}", i + 1, d.map(|d| format!("\n        !! C06 [edge-latches] {}", d)).unwrap_or_default()));
            continue;
        }
        let b: u8 = v.parse().unwrap();
        let r = std::panic::catch_unwind(std::panic::AssertUnwindSafe(|| t.step(b)));
        let quiet = total > 64 && i > 8 && i + 8 < total && matches!(r, Ok(None));
        if quiet {
            continue;
        }
        let mut l = format!("#{:<3} byte {:#04x} -> {}", i + 1, b, obs_str(&t.a));
        let stop = r.is_err();
        match r {
            Err(e) => l.push_str(&format!("  PANIC: {}", panic_msg(&e))),
            Ok(Some(d)) => l.push_str(&format!("\n        !! C06 [framing] {}", d)),
            Ok(None) => {}
        }
        lines.push(l);
        if stop {
            break;
        }
    }
    lines
}

pub fn catalogue(ch: u8) -> Vec<Vec<u8>> {
    let c = ch.min(15);
    let f = (c + 1) % 16;
    let on = 0x90 | c;
    let off = 0x80 | c;
    let cc = 0xB0 | c;
    let pb = 0xE0 | c;
    let mut v: Vec<Vec<u8>> = vec![
        vec![on, 0x3C, 0x64],
        vec![on, 0x3C, 0x64, off, 0x3C, 0x00],
        vec![on, 0x3C, 0x64, 0x3E, 0x64, 0x3C, 0x00],
        vec![on, 0x3C, 0x64, off, 0x3C, 0x40, 0x3E, 0x40],
        vec![cc, 0x01, 0x40],
        vec![cc, 0x40, 0x7F, 0x41, 0x00],
        vec![on, 0x3C, 0x64, cc, 0x7B, 0x00],
        vec![cc, 0x07, 0x22, cc, 0x79, 0x00],
        vec![cc, 0x07, 0x22, 0x79, 0x00, 0x01, 0x7F],
        vec![on, 0x3C, 0x64, cc, 0x79, 0x00, 0x7B, 0x00],
        vec![pb, 0x11, 0x22, 0x33, 0x44, cc, 0x79, 0x7F, 0x05, 0x06],
        vec![pb, 0x00, 0x40],
        vec![pb, 0x7F, 0x7F, 0x00, 0x00],
        // truncated messages followed by a complete one
        vec![on, cc, 0x01, 0x40],
        vec![on, 0x3C, cc, 0x01, 0x40],
        vec![cc, on, 0x3C, 0x64],
        vec![cc, 0x01, on, 0x3C, 0x64],
        vec![pb, on, 0x3C, 0x64],
        vec![pb, 0x10, on, 0x3C, 0x64],
        vec![off, on, 0x3C, 0x64],
        vec![off, 0x3C, on, 0x3C, 0x64],
        // system exclusive
        vec![0xF0, 0x7E, 0x7F, 0x09, 0x01, 0xF7, on, 0x3C, 0x64],
        vec![on, 0x3C, 0x64, 0xF0, 0x01, 0x02, 0xF7, 0x3E, 0x64],
        vec![on, 0x3C, 0xF0, 0x64, 0x3E, 0xF7, 0x40, 0x64],
        // foreign channel
        vec![0x90 | f, 0x3C, 0x64, on, 0x3E, 0x64, 0x80 | f, 0x3E, 0x00],
        vec![on, 0x3C, 0x64, 0xB0 | f, 0x7B, 0x00, 0xE0 | f, 0x00, 0x00],
        vec![on, 0x3C, 0x90 | f, 0x64, 0x3E, 0x64],
        // unsupported channel messages
        vec![0xA0 | c, 0x3C, 0x40, on, 0x3C, 0x64],
        vec![0xC0 | c, 0x05, 0x3C, 0x64, on, 0x3C, 0x64],
        vec![0xD0 | c, 0x40, 0x41, on, 0x3C, 0x64],
        vec![on, 0x3C, 0x64, 0xC0 | c, 0x3E, 0x64],
        // system common
        vec![on, 0x3C, 0x64, 0xF1, 0x05, 0x3E, 0x64],
        vec![on, 0x3C, 0x64, 0xF2, 0x01, 0x02, 0x3E, 0x64],
        vec![on, 0x3C, 0x64, 0xF3, 0x04, 0x3E, 0x64],
        vec![on, 0x3C, 0x64, 0xF6, 0x3E, 0x64],
        vec![on, 0x3C, 0x64, 0xF4, 0x3E, 0x64, 0xF5, 0x3E, 0x64],
        // real-time interleaved
        vec![on, 0xF8, 0x3C, 0xFA, 0x64],
        vec![cc, 0xFE, 0x01, 0xFF, 0x7F, 0xF9, 0xFD],
        vec![pb, 0x01, 0xFB, 0x02, 0xFC],
        // longer mixed
        vec![on, 0x3C, 0x64, 0x40, 0x50, cc, 0x01, 0x11, pb, 0x22, 0x33, off, 0x3C, 0x00, cc, 0x7B, 0x00],
        vec![],
    ];
    v.sort();
    v.dedup();
    v
}

pub struct FrameM {
    t: Twin,
    alphabet: std::sync::Arc<Vec<u8>>,
    max_held: usize,
}

impl Machine for FrameM {
    type Op = u8;
    const NAME: &'static str = "midi";
    fn config(&self) -> Value {
        json!({"channel": self.t.ch})
    }
    fn ops(&self, out: &mut Vec<u8>) {
        let held = self.t.a.verif_snapshot().held_down_notes.len().max(self.t.b.verif_snapshot().held_down_notes.len());
        // a data byte that would complete a note-on while max_held notes are outstanding is disabled
        let completing_note_on = match (self.t.dec.running, self.t.dec.data.len()) {
            (Some(st), 1) => st == (0x90 | self.t.ch),
            _ => false,
        };
        for b in self.alphabet.iter() {
            if *b < 0x80 && *b != 0 && completing_note_on && held >= self.max_held && !self.t.dec.in_sysex {
                continue;
            }
            out.push(*b);
        }
    }
    fn apply(&mut self, op: &u8, out: &mut StepOut) {
        if let Some(d) = self.t.step(*op) {
            let class = if *op >= 0xF8 { "real-time-byte-not-transparent" } else if *op >= 0xF0 { "system-common-handling" } else if *op >= 0x80 { "status-byte-handling" } else { "data-byte-handling" };
            out.flag("C06", class, d);
        }
        out.count("bytes_fed");
        if *op >= 0xF8 {
            out.count("real_time_bytes");
        }
        out.obs = obs(&self.t.a).iter().fold(0u64, |a, w| a.wrapping_mul(31).wrapping_add(*w as u64));
    }
    fn key(&self) -> u128 {
        let mut h = Hash128::new();
        key_of(&self.t.a, &mut h);
        key_of(&self.t.b, &mut h);
        h.word(self.t.dec.running.map(|r| r as u64 + 1).unwrap_or(0) | (self.t.dec.in_sysex as u64) << 16);
        h.bytes(&self.t.dec.data);
        h.finish()
    }
    fn fork(&self) -> Self {
        FrameM { t: Twin { a: self.t.a.verif_clone(), b: self.t.b.verif_clone(), dec: self.t.dec.clone(), ch: self.t.ch }, alphabet: self.alphabet.clone(), max_held: self.max_held }
    }
    fn op_str(op: &u8) -> String {
        format!("byte:{}", op)
    }
}

pub fn c06(ctx: &Ctx) -> Report {
    let mut rep = Report::new();
    rep.rule.push("twin oracle: receiver A gets the raw bytes, an independent MIDI 1.0 stream decoder in the harness (running status, status aborts partial message, system common cancels running status, SysEx payload skipped, real-time transparent) re-encodes each complete supported message of the listened channel as three bytes for receiver B; after every byte all getters, the edge latches and the held-note list of A and B must be equal and A must not panic. (i) E1: BFS to fixpoint over single bytes from a 35-byte alphabet; (ii) every byte value (k=1) / every byte pair (k=2, thorough) inserted at every position(s) of every stream of a base catalogue, and every single byte deleted; (iii) k=1 for all 16 listened channels; non-trivial = streams that end with an observable effect".into());
    let thorough = ctx.tier.is_thorough();
    // (i)
    for ch in if thorough { vec![0u8, 5] } else { vec![0u8] } {
        let f = (ch + 1) % 16;
        let mut alpha: Vec<u8> = vec![0x00, 0x3C, 0x7B, 0x40, 0x79];
        for k in [0x80u8, 0x90, 0xB0, 0xE0] {
            alpha.push(k | ch);
        }
        alpha.push(0x90 | f);
        alpha.push(0xB0 | f);
        if thorough {
            alpha.push(0x80 | f);
            alpha.push(0xE0 | f);
            alpha.push(0x01);
        }
        alpha.extend([0xA0 | ch, 0xC0 | ch, 0xD0 | ch]);
        alpha.extend(0xF0..=0xF7u8);
        if thorough {
            alpha.extend(0xF8..=0xFFu8);
        } else {
            alpha.extend([0xF8u8, 0xFE, 0xFF]);
        }
        let m = FrameM { t: Twin::new(ch), alphabet: std::sync::Arc::new(alpha.clone()), max_held: if thorough { 2 } else { 1 } };
        let r = explore(m, &ExploreCfg { max_depth: None, state_cap: if thorough { 40_000_000 } else { 8_000_000 }, threads: ctx.threads, label: format!("single bytes, channel {}, alphabet of {} bytes", ch, alpha.len()) }, &mut rep, &["C06"]);
        if !r.fixpoint && !r.cap_hit && !r.stopped {
            rep.machinery("byte-level exploration ended without a fixpoint".into());
        }
    }
    if thorough {
        let alpha: Vec<u8> = vec![0x00, 0x3C, 0x7B, 0x90, 0x80, 0xB0, 0xE0, 0x91, 0xF0, 0xF7, 0xF8, 0xC0];
        key_selfcheck(FrameM { t: Twin::new(0), alphabet: std::sync::Arc::new(alpha), max_held: 1 }, 200_000, &mut rep, "byte-level twin machine");
    }
    // (ii) / (iii)
    let channels: Vec<u8> = (0..16).collect();
    let mut jobs: Vec<(u8, Vec<u8>, u8)> = Vec::new(); // (channel, base, k)
    for &ch in &channels {
        for s in catalogue(ch) {
            jobs.push((ch, s.clone(), 1));
            if thorough && (ch == 0 || ch == 10) && s.len() <= 9 {
                jobs.push((ch, s, 2));
            }
        }
    }
    let jr = &jobs;
    par_ranges(ctx, &mut rep, jobs.len() as u64, jobs.len() as u64, |_, lo, hi, lc| {
        for j in lo..hi {
            let (ch, base, k) = &jr[j as usize];
            let l = base.len();
            if *k == 1 {
                run_stream(*ch, base, lc);
                for pos in 0..=l {
                    for b in 0..=255u8 {
                        let mut s = base.clone();
                        s.insert(pos, b);
                        run_stream(*ch, &s, lc);
                    }
                }
                for pos in 0..l {
                    let mut s = base.clone();
                    s.remove(pos);
                    run_stream(*ch, &s, lc);
                }
                lc.count("one_byte_deviations", (l as u64 + 1) * 256 + l as u64);
            } else {
                for p1 in 0..=l {
                    for p2 in p1..=l {
                        for b1 in 0..=255u8 {
                            for b2 in 0..=255u8 {
                                let mut s = base.clone();
                                s.insert(p2, b2);
                                s.insert(p1, b1);
                                run_stream(*ch, &s, lc);
                            }
                        }
                        lc.count("two_byte_deviations", 65536);
                    }
                }
            }
        }
    });
    // long runs: counters inside a receiver are 8 or 16 bits wide, so repetitions around 2^8 and 2^16 of each kind
    // of filler are placed between a context (running status / partial message) and a tail of ordinary messages
    {
        let lens: Vec<usize> = if thorough { vec![254, 255, 256, 257, 258, 300, 65534, 65535, 65536, 65537, 65540] } else { vec![255, 256, 257, 300, 65537] };
        let mut long_jobs: Vec<(u8, usize, usize, usize)> = Vec::new(); // channel, context, filler, length
        for ch in if thorough { vec![0u8, 7, 15] } else { vec![0u8] } {
            for ctxi in 0..5 {
                for fill in 0..8 {
                    for &l in &lens {
                        long_jobs.push((ch, ctxi, fill, l));
                    }
                }
            }
        }
        let lj = &long_jobs;
        par_ranges(ctx, &mut rep, long_jobs.len() as u64, long_jobs.len() as u64, |_, lo, hi, lc| {
            for j in lo..hi {
                let (ch, ctxi, fill, l) = lj[j as usize];
                let f = (ch + 1) % 16;
                let (on, cc, pb) = (0x90 | ch, 0xB0 | ch, 0xE0 | ch);
                let mut s: Vec<u8> = match ctxi {
                    0 => vec![on, 0x3C, 0x64],
                    1 => vec![on, 0x3C],
                    2 => vec![cc, 0x01],
                    3 => vec![pb, 0x05, 0x40],
                    _ => vec![],
                };
                match fill {
                    0 => {
                        s.push(0xF0);
                        for i in 0..l {
                            s.push(if i % 2 == 0 { 0x3E } else { 0x64 });
                        }
                    }
                    1 => s.extend(std::iter::repeat(0xF8).take(l)),
                    2 => {
                        for _ in 0..l {
                            s.extend([0x90 | f, 0x3E, 0x64]);
                        }
                    }
                    3 => {
                        for _ in 0..l {
                            s.extend([0xF0, 0x11, 0xF7]);
                        }
                    }
                    4 => {
                        // the same controller message over and over (running status)
                        s.push(cc);
                        for _ in 0..l {
                            s.extend([0x07, 0x33]);
                        }
                    }
                    5 => {
                        // pitch bends with a zero LSB over and over
                        s.push(pb);
                        for i in 0..l {
                            s.extend([0x00, 0x41 + (i % 8) as u8]);
                        }
                    }
                    6 => {
                        // the same key struck and released over and over (running status, velocity-0 note-off)
                        s.push(on);
                        for _ in 0..l {
                            s.extend([0x45, 0x50, 0x45, 0x00]);
                        }
                    }
                    _ => {
                        // a second key trilled while the first one stays down
                        s.extend([on, 0x30, 0x40]);
                        for _ in 0..l {
                            s.extend([0x90 | ch, 0x47, 0x51, 0x80 | ch, 0x47, 0x00]);
                        }
                    }
                }
                s.extend([0x3E, 0x64, cc, 0x01, 0x40, on, 0x3C, 0x00, pb, 0x00, 0x7F, on, 0x40, 0x22]);
                run_stream(ch, &s, lc);
                lc.count("long_run_streams", 1);
            }
        });
        // after every controller number: traffic on another channel and on the own channel still decodes as before
        let chans: Vec<u8> = if thorough { (0..16).collect() } else { vec![0, 9] };
        let cr = &chans;
        par_ranges(ctx, &mut rep, chans.len() as u64 * 128, chans.len() as u64 * 128, |_, lo, hi, lc| {
            for j in lo..hi {
                let ch = cr[(j / 128) as usize];
                let num = (j % 128) as u8;
                let f = (ch + 3) % 16;
                for val in [0u8, 64, 127] {
                    let s = vec![0xB0 | ch, num, val, 0x90 | f, 0x3C, 0x64, 0xB0 | f, 0x01, 0x40, 0xE0 | f, 0x00, 0x10, 0xB0 | f, 0x7B, 0x00, 0x90 | ch, 0x3E, 0x64, 0x80 | f, 0x3E, 0x00, 0xE0 | ch, 0x7F, 0x7F];
                    run_stream(ch, &s, lc);
                    // running status survives every controller message: more controller messages without a status byte
                    let s2 = vec![0xB0 | ch, num, val, 0x01, 0x55, 0x40, 0x00, num, val ^ 0x7F, 0x07, 0x11, 0x7B, 0x00, 0x4A, 0x7F];
                    run_stream(ch, &s2, lc);
                    // ... also with a note held and a real-time byte in between
                    let s3 = vec![0x90 | ch, 0x3C, 0x64, 0xB0 | ch, num, val, 0xF8, 0x7B, 0x00, 0x01, 0x22];
                    run_stream(ch, &s3, lc);
                    lc.count("after_controller_streams", 3);
                }
            }
        });
    }
    // the channel byte as constructed (new(ch) with ch > 15 is C20's business)
    // system-exclusive payloads as an input space: after a controller and a held note, F0 <payload> F7 followed by
    // more traffic, for every payload of up to 2 bytes over all 128 data values and every payload of 3..6 (thorough 7)
    // bytes over the values universal SysEx messages are built from; the payload must be ignored whatever it says
    {
        let alpha: [u8; 9] = [0x00, 0x01, 0x02, 0x03, 0x04, 0x06, 0x7D, 0x7E, 0x7F];
        let maxlen: u32 = if thorough { 7 } else { 6 };
        let mut total: u64 = 1 + 128 + 128 * 128 + if thorough { 128 * 128 * 128 } else { 0 };
        let short = total;
        for l in 3..=maxlen {
            total += 9u64.pow(l);
        }
        par_ranges(ctx, &mut rep, total, 256, |_, lo, hi, lc| {
            for i in lo..hi {
                let mut payload: Vec<u8> = Vec::new();
                if i < short {
                    let mut x = i;
                    let len = if x == 0 { 0 } else if x < 1 + 128 { x -= 1; 1 } else if x < 1 + 128 + 128 * 128 { x -= 1 + 128; 2 } else { x -= 1 + 128 + 128 * 128; 3 };
                    for _ in 0..len {
                        payload.push((x % 128) as u8);
                        x /= 128;
                    }
                } else {
                    let mut x = i - short;
                    let mut len = 3u32;
                    while x >= 9u64.pow(len) {
                        x -= 9u64.pow(len);
                        len += 1;
                    }
                    for _ in 0..len {
                        payload.push(alpha[(x % 9) as usize]);
                        x /= 9;
                    }
                }
                let ch = (i % 16) as u8;
                let mut stream: Vec<u8> = vec![0xB0 | ch, 7, 100, 0x90 | ch, 60, 100, 0xF0];
                stream.extend(&payload);
                // terminated by F7, or (every fourth) by the next status byte
                if i % 4 != 3 {
                    stream.push(0xF7);
                }
                stream.extend([0x90 | ch, 62, 90, 0xB0 | ch, 1, 64, 0x80 | ch, 60, 0]);
                run_stream(ch, &stream, lc);
                lc.count("sysex_payload_streams", 1);
            }
        });
        rep.require_nonzero("sysex_payload_streams");
    }
    let streams = rep.counters.get("streams").copied().unwrap_or(0);
    let bytes = rep.counters.get("bytes_fed").copied().unwrap_or(0);
    rep.evaluations += streams;
    rep.transitions += bytes;
    rep.traces += streams;
    rep.states += bytes;
    rep.nontrivial = rep.counters.get("streams_with_an_observable_effect").copied().unwrap_or(0);
    rep.exhaustive = false;
    rep.subruns.push(json!({"engine": "E2-deviations", "base_streams_per_channel": catalogue(0).len(), "channels": 16, "k1": true, "k2_channels": if thorough { vec![0, 10] } else { vec![] }, "streams": streams, "bytes": bytes}));
    rep.require_nonzero("streams_with_an_observable_effect");
    rep.require_nonzero("real_time_bytes");
    rep.require_nonzero("long_run_streams");
    rep.require_nonzero("after_controller_streams");
    rep.sample(json!({"stream": "90 F8 3C FA 64", "meaning": "note-on with real-time bytes between its bytes; B receives 90 3C 64"}));
    rep.sample(json!({"stream": "90 3C 64 F0 01 02 F7 3E 64", "meaning": "SysEx cancels running status: 3E 64 must be ignored"}));
    rep.assumptions.push("the harness decoder is the reference for MIDI 1.0 framing (60 lines, src/p_midi.rs Decoder)".into());
    rep.assumptions.push("all 256^n streams are not enumerated; coverage is the fixpoint over the byte alphabet plus <= 2 arbitrary inserted bytes around a catalogue".into());
    rep
}

/// every sequence of `depth` controller messages from `ops` (no state matching), each followed by the fixed probe
/// operations; the model comparison runs after every message, panics are caught and reported under every property
pub fn cc_sequences(ctx: &Ctx, rep: &mut Report, ch: u8, ops: &[(u8, u8)], depth: u32, probes: &[MOp], props: &[&'static str], label: &str) {
    let n = ops.len() as u64;
    let split = if depth >= 2 { 2 } else { 1 };
    let prefixes = n.pow(split);
    let pv: Vec<&'static str> = props.to_vec();
    let pr = &pv;
    let total = std::sync::atomic::AtomicU64::new(0);
    par_ranges(ctx, rep, prefixes, prefixes.min(4096), |_, lo, hi, lc| {
        fn rec(m: &MidiM, ops: &[(u8, u8)], depth: u32, path: &mut Vec<MOp>, probes: &[MOp], pr: &[&'static str], lc: &mut LocalCounts, count: &mut u64) {
            if depth == 0 {
                let mut t = m.fork();
                let mut p2 = path.clone();
                for p in probes {
                    p2.push(*p);
                    if !step(&mut t, p, &p2, pr, lc) {
                        break;
                    }
                }
                *count += 1;
                return;
            }
            for (c, v) in ops {
                let mut n = m.fork();
                let op = MOp::Cc(*c, *v);
                path.push(op);
                if step(&mut n, &op, path, pr, lc) {
                    rec(&n, ops, depth - 1, path, probes, pr, lc, count);
                }
                path.pop();
            }
        }
        fn step(m: &mut MidiM, op: &MOp, path: &[MOp], pr: &[&'static str], lc: &mut LocalCounts) -> bool {
            let mut out = StepOut::new();
            let r = std::panic::catch_unwind(std::panic::AssertUnwindSafe(|| m.apply(op, &mut out)));
            let ops = || path.iter().map(MidiM::op_str).collect::<Vec<_>>();
            if let Err(e) = r {
                for p in pr {
                    lc.violation(Violation { prop: p, class: "panic".into(), detail: format!("the real code panicked: {}", panic_msg(&e)), machine: "midi", config: json!({"channel": m.ch}), ops: ops() });
                }
                return false;
            }
            let mut ok = true;
            for f in out.flags {
                if pr.contains(&f.prop) {
                    let already = lc.per_class.get(&f.class).copied().unwrap_or(0);
                    lc.violation(Violation { prop: f.prop, class: f.class, detail: f.detail, machine: "midi", config: json!({"channel": m.ch}), ops: if already < PER_CLASS_CAP { ops() } else { Vec::new() } });
                    ok = false;
                }
            }
            ok
        }
        let base = MidiM::new(ch, Alphabet { notes: vec![], vels: vec![], k: 32, modes: false, polls: false, ccs: vec![], bends: vec![], foreign: false, edge_note: None });
        let mut count = 0u64;
        for pi in lo..hi {
            let mut m = base.fork();
            let mut path: Vec<MOp> = Vec::new();
            let mut x = pi;
            let mut ok = true;
            for _ in 0..split {
                let (c, v) = ops[(x % n) as usize];
                x /= n;
                let op = MOp::Cc(c, v);
                path.push(op);
                if !step(&mut m, &op, &path, pr, lc) {
                    ok = false;
                    break;
                }
            }
            if ok {
                rec(&m, ops, depth - split, &mut path, probes, pr, lc, &mut count);
            }
        }
        total.fetch_add(count, std::sync::atomic::Ordering::Relaxed);
    });
    let t = total.into_inner();
    rep.count("controller_sequences", t);
    rep.evaluations += t;
    rep.transitions += t * (depth as u64 + probes.len() as u64);
    rep.traces += t;
    rep.subruns.push(json!({"engine": "E1-sequences", "machine": "midi", "label": label, "controller_messages_in_the_menu": ops.len(), "depth": depth, "probes_after_each_sequence": probes.iter().map(MidiM::op_str).collect::<Vec<_>>(), "sequences": t}));
}

/// controller numbers with (possibly) special meaning in MIDI: data entry, increment / decrement, (N)RPN select,
/// channel mode messages, plus the nine routed ones
pub const CC_FAMILY: [u8; 27] = [1, 5, 7, 64, 65, 71, 74, 6, 38, 96, 97, 98, 99, 100, 101, 120, 121, 122, 123, 124, 125, 126, 127, 0, 32, 2, 119];

// ------------------------------------------------------------------ C18

pub fn c18(ctx: &Ctx) -> Report {
    let mut rep = Report::new();
    rep.rule.push("E2: 16 listened channels x 128 controller numbers x 128 values on the listened and on a foreign channel, each from the power-on state and from a state with every controller set, compared with the routing table of the statement (every other getter unchanged); all 16384 pitch-bend values x 16 channels (end points exact, strictly increasing); E1: BFS to fixpoint over controller / pitch-bend / reset / note messages; non-trivial = messages that must change an output".into());
    par_ranges(ctx, &mut rep, 16 * 128, 16 * 128, |_, lo, hi, lc| {
        let mut fnd: Vec<Finding> = Vec::new();
        for i in lo..hi {
            let ch = (i / 128) as u8;
            let num = (i % 128) as u8;
            let fch = (ch + 5) % 16;
            for val in 0..128u8 {
                for preset in [false, true] {
                    let mut rx = MonoMidiReceiver::new(ch);
                    let mut m = Model::new();
                    let mut ops: Vec<String> = Vec::new();
                    if preset {
                        for (c, v) in [(1u8, 10u8), (7, 20), (71, 30), (74, 40), (5, 50), (65, 0), (64, 0)] {
                            for b in [0xB0 | ch, c, v] {
                                rx.parse(b);
                            }
                            m.cc(c, v);
                            ops.push(format!("cc:{}:{}", c, v));
                        }
                        for b in [0xE0 | ch, 0x11, 0x22, 0x90 | ch, 60, 100] {
                            rx.parse(b);
                        }
                        m.bend = Some(0x22 << 7 | 0x11);
                        m.note_on(60, 100);
                        ops.push(format!("bend:{}", 0x22 << 7 | 0x11));
                        ops.push("on:60:100".into());
                    }
                    // foreign channel first: nothing may change
                    let before = obs(&rx);
                    for b in [0xB0 | fch, num, val] {
                        rx.parse(b);
                    }
                    if obs(&rx) != before {
                        fnd.push(("C18", "foreign-channel-controller", format!("controller {} value {} on channel {} changed an output of a receiver listening on {}", num, val, fch, ch)));
                        ops.push(format!("foreign_cc:{}:{}", num, val));
                    }
                    let mut twin = rx.verif_clone();
                    for b in [0xB0 | ch, num, val] {
                        rx.parse(b);
                    }
                    m.cc(num, val);
                    ops.push(format!("cc:{}:{}", num, val));
                    // no controller other than 123 may change how notes are handled afterwards (priority, retrigger
                    // mode, edge latches, the list of held notes): the receiver and a copy that never saw the
                    // controller are fed the same note traffic and polled alike
                    if num != 123 && num != 121 && matches!(val, 0 | 1 | 63 | 64 | 127) {
                        let mut rx2 = rx.verif_clone();
                        let probe: [(u8, u8, u8); 11] = [(0x90, 60, 100), (0x90, 64, 90), (0x90, 62, 80), (0x80, 62, 0), (0x80, 64, 64), (0x90, 67, 1), (0x80, 60, 0), (0x90, 67, 0), (0x90, 50, 5), (0xB0, 123, 0), (0x90, 51, 6)];
                        for (k, (st, d1, d2)) in probe.iter().enumerate() {
                            for b in [st | ch, *d1, *d2] {
                                rx2.parse(b);
                                twin.parse(b);
                            }
                            let a = (rx2.gate(), rx2.note_num(), rx2.velocity().to_bits(), rx2.rising_gate(), rx2.falling_gate());
                            let b = (twin.gate(), twin.note_num(), twin.velocity().to_bits(), twin.rising_gate(), twin.falling_gate());
                            lc.count("note_probes_after_a_controller", 1);
                            if a != b {
                                fnd.push(("C18", "controller-changes-note-handling", format!("after this controller, note message #{} of the probe {:?} gives (gate, note, velocity bits, rising, falling) = {:?}; a receiver that never saw the controller gives {:?}", k + 1, &probe[..=k], a, b)));
                                break;
                            }
                        }
                    }
                    lc.count("controller_messages", 1);
                    if matches!(num, 1 | 7 | 71 | 74 | 5 | 65 | 64 | 121) {
                        lc.count("routed_controller_messages", 1);
                    }
                    compare(&rx, &m, &mut fnd);
                    // traffic on another channel after this controller still changes nothing
                    let after = obs(&rx);
                    for b in [0x90 | fch, 0x3C, 0x64, 0xB0 | fch, 0x01, 0x40, 0xB0 | fch, 0x7B, 0x00, 0xE0 | fch, 0x00, 0x00, 0x80 | fch, 0x3C, 0x00] {
                        rx.parse(b);
                    }
                    if obs(&rx) != after {
                        ops.push("foreign_on:60".into());
                        ops.push("foreign_cc:1:64".into());
                        ops.push("foreign_all_notes_off".into());
                        ops.push("foreign_bend:0".into());
                        fnd.push(("C18", "foreign-channel-traffic-after-controller", format!("after controller {} value {} on the listened channel, messages on channel {} changed an output", num, val, fch)));
                    }
                    for (p, c, d) in fnd.drain(..) {
                        if p == "C18" || num != 123 {
                            let class = if p != "C18" { "controller-touches-notes" } else if c == "controller-changes-note-handling" { c } else if !matches!(num, 1 | 7 | 71 | 74 | 5 | 65 | 64 | 121) { "unrouted-controller-has-effect" } else { c };
                            lc.violation(Violation { prop: "C18", class: class.into(), detail: format!("controller {} value {}: {}", num, val, d), machine: "midi", config: json!({"channel": ch}), ops: ops.clone() });
                        }
                    }
                }
            }
        }
    });
    // pitch bend
    par_ranges(ctx, &mut rep, 16, 16, |_, lo, hi, lc| {
        for ch in lo..hi {
            let ch = ch as u8;
            let mut rx = MonoMidiReceiver::new(ch);
            let mut prev: Option<f32> = None;
            let mut m = Model::new();
            let mut fnd: Vec<Finding> = Vec::new();
            for v in 0..16384u16 {
                // alternate explicit status / running status
                if v % 3 == 0 {
                    rx.parse(0xE0 | ch);
                }
                rx.parse((v & 0x7f) as u8);
                rx.parse((v >> 7) as u8);
                m.bend = Some(v);
                compare(&rx, &m, &mut fnd);
                let g = rx.pitch_bend();
                if let Some(p) = prev {
                    if !(g > p) {
                        fnd.push(("C18", "pitch-bend-not-increasing", format!("pitch_bend() = {:?} for {} but {:?} for {}", g, v, p, v - 1)));
                    }
                }
                prev = Some(g);
                lc.count("pitch_bend_messages", 1);
                for (p, c, d) in fnd.drain(..) {
                    if p == "C18" {
                        lc.violation(Violation { prop: "C18", class: c.into(), detail: d, machine: "midi", config: json!({"channel": ch}), ops: vec![format!("bend:{}", v.saturating_sub(1)), format!("bend:{}", v)] });
                    }
                }
            }
            // the same values in other orders (descending, stride 128 = all LSB zero first, stride 129, bit-reversed):
            // the reading must not depend on what was sent before
            for order in 0..4u32 {
                let mut rx2 = MonoMidiReceiver::new(ch);
                let mut sent: Vec<String> = Vec::new();
                'order: for i in 0..16384u32 {
                    let v: u16 = match order {
                        0 => (16383 - i) as u16,
                        1 => ((i % 128) * 128 + i / 128) as u16,
                        2 => ((i * 129) % 16384) as u16,
                        _ => ((i as u16).reverse_bits() >> 2) as u16,
                    };
                    if i % 5 == 0 {
                        rx2.parse(0xE0 | ch);
                    }
                    rx2.parse((v & 0x7f) as u8);
                    rx2.parse((v >> 7) as u8);
                    sent.push(format!("bend:{}", v));
                    m.bend = Some(v);
                    compare(&rx2, &m, &mut fnd);
                    lc.count("pitch_bend_messages", 1);
                    for (p, c, d) in fnd.drain(..) {
                        if p == "C18" {
                            lc.violation(Violation { prop: "C18", class: format!("{}-history-dependent", c), detail: format!("{} (message {} of the values sent in order pattern {})", d, i + 1, order), machine: "midi", config: json!({"channel": ch}), ops: sent.clone() });
                            break 'order;
                        }
                    }
                }
            }
            // foreign channel bend: no effect
            let before = obs(&rx);
            for b in [0xE0 | ((ch + 1) % 16), 0x00, 0x00] {
                rx.parse(b);
            }
            if obs(&rx) != before {
                lc.violation(Violation { prop: "C18", class: "foreign-channel-bend".into(), detail: "pitch bend on another channel changed an output".into(), machine: "midi", config: json!({"channel": ch}), ops: vec!["foreign_bend:0".into()] });
            }
        }
    });
    let n = 16 * 128 * 128 * 2 * 2 + 16 * 16384;
    rep.evaluations += n;
    rep.transitions += n;
    rep.traces += n;
    rep.states += n;
    // histories
    let mut ccs: Vec<(u8, u8)> = Vec::new();
    let vals: &[u8] = if ctx.tier.is_thorough() { &[0, 63, 64, 127] } else { &[0, 64, 127] };
    for c in [1u8, 7, 71, 74, 5, 65, 64] {
        for v in vals {
            ccs.push((c, *v));
        }
    }
    ccs.push((121, 0));
    ccs.push((121, 127));
    ccs.push((2, 77));
    ccs.push((120, 0));
    let a = Alphabet { notes: vec![60], vels: vec![100], k: 1, modes: false, polls: false, ccs, bends: if ctx.tier.is_thorough() { vec![0, 8191, 8192, 16383] } else { vec![0, 8192, 16383] }, foreign: true, edge_note: None };
    // fewer controllers in the quick tier keeps the product space small
    let a = if ctx.tier.is_thorough() { a } else { Alphabet { ccs: a.ccs.into_iter().filter(|(c, _)| matches!(c, 1 | 74 | 65 | 64 | 121 | 2 | 5)).collect(), ..a } };
    run_m(ctx, &mut rep, 2, a.clone(), "controller / pitch-bend / reset / note histories", &["C18"]);
    // complement without state matching: all sequences of controller / bend / reset / note messages up to a depth
    let small = Alphabet { ccs: vec![(1, 64), (1, 0), (74, 127), (65, 0), (64, 127), (121, 0), (5, 1), (7, 99), (71, 3), (2, 77), (120, 0)], bends: vec![0, 16383], foreign: false, ..a };
    enumerate_sequences(&MidiM::new(2, small), if ctx.tier.is_thorough() { 5 } else { 4 }, ctx, &mut rep, &["C18"], "all controller message sequences, no state matching");
    // every short sequence of controller messages (all 128 numbers), each followed by pitch-bend and note probes
    {
        let mut ops: Vec<(u8, u8)> = (0..128u8).flat_map(|c| [(c, 0u8), (c, 64)]).collect();
        for c in CC_FAMILY {
            ops.push((c, 12));
            ops.push((c, 127));
        }
        let probes = [MOp::Bend(16383), MOp::Bend(0), MOp::On(60, 100), MOp::Cc(1, 77), MOp::Bend(8192)];
        if ctx.tier.is_thorough() {
            let mut all: Vec<(u8, u8)> = Vec::new();
            for c in 0..128u8 {
                for v in [0u8, 12, 127] {
                    all.push((c, v));
                }
            }
            cc_sequences(ctx, &mut rep, 3, &all, 3, &probes, &["C18"], "all controller numbers x {0,12,127}, sequences of 3, then probes");
            let fam: Vec<(u8, u8)> = CC_FAMILY.iter().flat_map(|c| [(*c, 0u8), (*c, 12), (*c, 127)]).collect();
            cc_sequences(ctx, &mut rep, 9, &fam, 4, &probes, &["C18"], "special controller numbers x {0,12,127}, sequences of 4, then probes");
        } else {
            cc_sequences(ctx, &mut rep, 3, &ops, 2, &probes, &["C18"], "all controller numbers x {0,64} + special numbers x {12,127}, sequences of 2, then probes");
            let zero: Vec<(u8, u8)> = ops.iter().cloned().filter(|(c, v)| *v == 0 || CC_FAMILY.contains(c)).collect();
            cc_sequences(ctx, &mut rep, 3, &zero, 3, &probes, &["C18"], "all controller numbers (value 0) + special numbers x {12,127}, sequences of 3, then probes");
        }
    }
    rep.nontrivial = rep.counters.get("routed_controller_messages").copied().unwrap_or(0) + rep.counters.get("pitch_bend_messages").copied().unwrap_or(0);
    rep.require_nonzero("routed_controller_messages");
    rep.require_nonzero("controller_sequences");
    rep.sample(json!({"script": {"machine": "midi", "config": {"channel": 2}, "ops": ["cc:74:127", "bend:16383", "cc:121:0"]}, "expected": "vcf_resonance 1.0, pitch_bend 1.0, then everything back to power-on defaults"}));
    rep
}
