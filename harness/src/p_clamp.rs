//! C20: out-of-range parameters are clamped to the nearest legal value

use crate::common::*;
use serde_json::{json, Value};
use synth_utils::adsr::{Adsr, Input, SustainLevel, TimePeriod};
use synth_utils::mono_midi_receiver::MonoMidiReceiver;
use synth_utils::quantizer::{Note, Quantizer};

fn viol(class: &str, detail: String, config: Value, ops: Vec<String>) -> Violation {
    Violation { prop: "C20", class: class.to_string(), detail, machine: "clamp", config, ops }
}

fn judge(x: f32, r: f32, lo: f32, hi: f32) -> Option<&'static str> {
    if !(r >= lo && r <= hi) {
        return Some("result-outside-range");
    }
    if x.is_nan() {
        if r == lo || r == hi {
            None
        } else {
            Some("nan-not-a-bound")
        }
    } else if x < lo {
        if r == lo { None } else { Some("below-not-low-bound") }
    } else if x > hi {
        if r == hi { None } else { Some("above-not-high-bound") }
    } else if r == x {
        None
    } else {
        Some("in-range-value-changed")
    }
}

pub fn midi_obs(m: &MonoMidiReceiver) -> [u32; 11] {
    [
        m.note_num() as u32,
        m.velocity().to_bits(),
        m.pitch_bend().to_bits(),
        m.mod_wheel().to_bits(),
        m.volume().to_bits(),
        m.vcf_cutoff().to_bits(),
        m.vcf_resonance().to_bits(),
        m.portamento_time().to_bits(),
        m.portamento_enabled() as u32,
        m.sustain_enabled() as u32,
        m.gate() as u32,
    ]
}

pub fn c20(ctx: &Ctx) -> Report {
    let mut rep = Report::new();
    rep.rule.push("E2: both float conversions over all 2^32 f32 bit patterns (both tiers); twin envelopes (out-of-range value vs. bound) over all gate/tick scripts to a depth; Note::from over all 256 values with all two-operation scale-edit histories; MonoMidiReceiver::new over all 256 channel bytes against traffic on all 16 channels; non-trivial = bit patterns outside the legal range or NaN".into());
    par_ranges(ctx, &mut rep, 1u64 << 32, 1024, |_, lo, hi, lc| {
        for i in lo..hi {
            let bits = i as u32;
            let x = f32::from_bits(bits);
            let t: f32 = TimePeriod::from(x).into();
            let s: f32 = SustainLevel::from(x).into();
            if let Some(c) = judge(x, t, 0.001, 20.0) {
                lc.violation(viol(&format!("time-{}", c), format!("TimePeriod::from({:?} = 0x{:08x}) = {:?}", x, bits, t), json!({}), vec![format!("time:0x{:08x}", bits)]));
            }
            if let Some(c) = judge(x, s, 0.0, 1.0) {
                lc.violation(viol(&format!("sustain-{}", c), format!("SustainLevel::from({:?} = 0x{:08x}) = {:?}", x, bits, s), json!({}), vec![format!("sustain:0x{:08x}", bits)]));
            }
            if x.is_nan() {
                lc.count("nan_patterns", 1);
            } else {
                if !(x >= 0.001 && x <= 20.0) {
                    lc.count("time_out_of_range_patterns", 1);
                }
                if !(x >= 0.0 && x <= 1.0) {
                    lc.count("sustain_out_of_range_patterns", 1);
                }
            }
        }
    });
    rep.evaluations += 2 * (1u64 << 32);
    rep.states += 1u64 << 32;
    rep.transitions += 2 * (1u64 << 32);
    rep.traces += 2 * (1u64 << 32);
    rep.subruns.push(json!({"engine": "E2-sweep", "what": "TimePeriod::from and SustainLevel::from over all f32 bit patterns", "patterns": 1u64 << 32}));

    // twin envelopes
    let menu: [(f32, f32, f32); 12] = [
        // (out-of-range value, time bound, sustain bound)
        (-1.0, 0.001, 0.0),
        (0.0, 0.001, 0.0),
        (-0.0, 0.001, 0.0),
        (0.0009999, 0.001, 0.0009999),
        (f32::MIN_POSITIVE, 0.001, f32::MIN_POSITIVE),
        (f32::NEG_INFINITY, 0.001, 0.0),
        (f32::MIN, 0.001, 0.0),
        (20.000002, 20.0, 1.0),
        (1.0000001, 1.0000001, 1.0),
        (1.0e10, 20.0, 1.0),
        (f32::MAX, 20.0, 1.0),
        (f32::INFINITY, 20.0, 1.0),
    ];
    let depth: u32 = if ctx.tier.is_thorough() { 12 } else { 8 };
    let nscripts = 3u64.pow(depth);
    par_ranges(ctx, &mut rep, 12 * 4 * 3, 12 * 4 * 3, |_, lo, hi, lc| {
        for idx in lo..hi {
            let (v, tb, sb) = menu[(idx / 12) as usize];
            let which = (idx / 3) % 4;
            let fs = [1000.0f32, 100.0, 4000.0][(idx % 3) as usize];
            let mk = |val: f32| -> Input {
                match which {
                    0 => Input::Attack(val.into()),
                    1 => Input::Decay(val.into()),
                    2 => Input::Sustain(val.into()),
                    _ => Input::Release(val.into()),
                }
            };
            let bound = if which == 2 { sb } else { tb };
            for sc in 0..nscripts {
                let mut a = Adsr::new(fs);
                let mut b = Adsr::new(fs);
                // a second parameter away from its default so phases are several ticks long
                for x in [&mut a, &mut b] {
                    x.set_input(Input::Attack(0.003.into()));
                    x.set_input(Input::Decay(0.002.into()));
                    x.set_input(Input::Sustain(0.5.into()));
                    x.set_input(Input::Release(0.003.into()));
                }
                a.set_input(mk(v));
                b.set_input(mk(bound));
                let mut s = sc;
                let mut ops: Vec<&'static str> = Vec::new();
                for _ in 0..depth {
                    let o = s % 3;
                    s /= 3;
                    match o {
                        0 => {
                            a.tick();
                            b.tick();
                            ops.push("tick");
                        }
                        1 => {
                            a.gate_on();
                            b.gate_on();
                            ops.push("gate_on");
                        }
                        _ => {
                            a.gate_off();
                            b.gate_off();
                            ops.push("gate_off");
                        }
                    }
                    lc.count("twin_steps", 1);
                    if a.value().to_bits() != b.value().to_bits() {
                        let mut script = vec![format!("twin:{}:{:?}:{:?}", ["attack", "decay", "sustain", "release"][which as usize], v, bound)];
                        script.extend(ops.iter().map(|s| s.to_string()));
                        lc.violation(viol("twin-envelope-differs", format!("envelope configured with {:?} outputs {:?}, with the bound {:?} outputs {:?}", v, a.value(), bound, b.value()), json!({"fs": fs}), script));
                        break;
                    }
                }
            }
        }
    });
    // long scripts: a complete envelope (through a 20 s phase at 100 Hz where the value maps to the upper bound)
    par_ranges(ctx, &mut rep, 12 * 4, 12 * 4, |_, lo, hi, lc| {
        for idx in lo..hi {
            let (v, tb, sb) = menu[(idx / 4) as usize];
            let which = idx % 4;
            let fs = 100.0f32;
            let mk = |val: f32| -> Input {
                match which {
                    0 => Input::Attack(val.into()),
                    1 => Input::Decay(val.into()),
                    2 => Input::Sustain(val.into()),
                    _ => Input::Release(val.into()),
                }
            };
            let bound = if which == 2 { sb } else { tb };
            let mut a = Adsr::new(fs);
            let mut b = Adsr::new(fs);
            for x in [&mut a, &mut b] {
                x.set_input(Input::Sustain(0.5.into()));
            }
            a.set_input(mk(v));
            b.set_input(mk(bound));
            let n = (bound.max(0.001) as f64 * fs as f64 * if which == 2 { 0.0 } else { 1.0 }) as u64 + 2600;
            let mut ticks = 0u64;
            let mut bad: Option<String> = None;
            'outer: for (op, cnt) in [("gate_on", 1u64), ("tick", n), ("gate_off", 1), ("tick", n), ("gate_on", 1), ("tick", 7), ("gate_off", 1), ("tick", 7)] {
                for _ in 0..cnt {
                    for x in [&mut a, &mut b] {
                        match op {
                            "tick" => x.tick(),
                            "gate_on" => x.gate_on(),
                            _ => x.gate_off(),
                        }
                    }
                    ticks += 1;
                    lc.count("twin_steps", 1);
                    if a.value().to_bits() != b.value().to_bits() {
                        bad = Some(format!("after {} operations of [gate_on, tick x {}, gate_off, tick x {}, ...]: {:?} vs {:?}", ticks, n, n, a.value(), b.value()));
                        break 'outer;
                    }
                }
            }
            if let Some(d) = bad {
                lc.violation(viol("twin-envelope-differs", format!("envelope configured with {} = {:?} and with the bound {:?} differ {}", ["attack", "decay", "sustain", "release"][which as usize], v, bound, d), json!({"fs": fs}), vec![format!("twinlong:{}:{:?}:{:?}", ["attack", "decay", "sustain", "release"][which as usize], v, bound), "gate_on".into(), format!("tick*{}", n), "gate_off".into(), format!("tick*{}", n), "gate_on".into(), "tick*7".into(), "gate_off".into(), "tick*7".into()]));
            }
            lc.count("twin_long_scripts", 1);
        }
    });
    rep.evaluations += 12 * 4 * 3 * nscripts;
    rep.transitions += 12 * 4 * 3 * nscripts * depth as u64;
    rep.traces += 12 * 4 * 3 * nscripts * depth as u64;
    rep.subruns.push(json!({"engine": "E1-sequences", "what": "twin envelopes: out-of-range value vs bound", "values": 12, "inputs": 4, "sample_rates": 3, "depth": depth, "scripts_each": nscripts}));

    // notes
    for n in 0..=255u8 {
        let got: u8 = Note::from(n).into();
        if got != n.min(11) {
            rep.violation(viol("note-clamp", format!("Note::from({}) = {}", n, got), json!({}), vec![format!("note:{}", n)]));
        }
        let got2: u8 = Note::new(n).into();
        if got2 != n.min(11) {
            rep.violation(viol("note-clamp", format!("Note::new({}) = {}", n, got2), json!({}), vec![format!("note:{}", n)]));
        }
    }
    par_ranges(ctx, &mut rep, 512 * 512, 64, |_, lo, hi, lc| {
        for i in lo..hi {
            let o1 = (i / 512) as u32;
            let o2 = (i % 512) as u32;
            let mut a = Quantizer::new();
            let mut b = Quantizer::new();
            // start from a sparse scale so that allow() is visible too
            a.forbid(&[Note::new(9), Note::new(10), Note::new(11), Note::new(3)]);
            b.forbid(&[Note::new(9), Note::new(10), Note::new(11), Note::new(3)]);
            for o in [o1, o2] {
                let n = (o & 255) as u8;
                if o < 256 {
                    a.allow(&[Note::from(n)]);
                    b.allow(&[Note::from(n.min(11))]);
                } else {
                    a.forbid(&[Note::from(n)]);
                    b.forbid(&[Note::from(n.min(11))]);
                }
                let same = (0..=255u8).all(|k| a.is_allowed(k.into()) == b.is_allowed(k.min(11).into())) ;
                lc.count("note_histories_steps", 1);
                if !same {
                    lc.violation(viol("note-above-11-not-11", format!("scale after edits with note numbers ({}, {}) = {:012b}, with the clamped numbers = {:012b}", o1 & 255, o2 & 255, a.verif_allowed(), b.verif_allowed()), json!({}), vec![format!("{}:{}", if o1 < 256 { "allow" } else { "forbid" }, o1 & 255), format!("{}:{}", if o2 < 256 { "allow" } else { "forbid" }, o2 & 255)]));
                    break;
                }
            }
        }
    });
    rep.evaluations += 512 * 512;
    rep.transitions += 2 * 512 * 512;
    rep.traces += 2 * 512 * 512;

    // channels
    let mut streams: Vec<Vec<u8>> = Vec::new();
    for t in 0..16u8 {
        streams.push(vec![0x90 | t, 60, 100, 0xB0 | t, 1, 99, 0xB0 | t, 64, 0, 0xE0 | t, 5, 70, 0x90 | t, 72, 1, 0x80 | t, 60, 0, 62, 0, 0xB0 | t, 123, 0, 0xB0 | t, 121, 0]);
    }
    let streams_ref = &streams;
    par_ranges(ctx, &mut rep, 256, 16, |_, lo, hi, lc| {
        for ch in lo..hi {
            let ch = ch as u8;
            for (t, st) in streams_ref.iter().enumerate() {
                let mut a = MonoMidiReceiver::new(ch);
                let mut b = MonoMidiReceiver::new(ch.min(15));
                for (k, byte) in st.iter().enumerate() {
                    a.parse(*byte);
                    b.parse(*byte);
                    lc.count("channel_bytes", 1);
                    let same = midi_obs(&a) == midi_obs(&b) && a.verif_snapshot() == b.verif_snapshot();
                    if t as u8 == ch.min(15) && k == 2 && !a.gate() {
                        lc.violation(viol("channel-clamp", format!("new({}) does not listen on channel {}", ch, ch.min(15)), json!({"channel": ch}), st[..=k].iter().map(|b| format!("byte:{}", b)).collect()));
                    }
                    if t as u8 == ch.min(15) && k == 2 {
                        lc.count("channel_streams_heard", 1);
                    }
                    if !same {
                        lc.violation(viol("channel-clamp", format!("new({}) and new({}) differ after traffic on channel {}", ch, ch.min(15), t), json!({"channel": ch}), st[..=k].iter().map(|b| format!("byte:{}", b)).collect()));
                        break;
                    }
                }
            }
        }
    });
    rep.evaluations += 256 * 16;
    rep.nontrivial = rep.counters.get("nan_patterns").copied().unwrap_or(0) + rep.counters.get("time_out_of_range_patterns").copied().unwrap_or(0) + rep.counters.get("sustain_out_of_range_patterns").copied().unwrap_or(0);
    rep.require_nonzero("nan_patterns");
    rep.require_nonzero("twin_steps");
    rep.require_nonzero("channel_streams_heard");
    rep.sample(json!({"TimePeriod::from": "0x7fc00000 (NaN)", "accepted": [0.001, 20.0]}));
    rep.sample(json!({"SustainLevel::from": "0x3f800001 (1.0000001)", "expected": 1.0}));
    rep.sample(json!({"twin": {"input": "release", "value": "inf", "bound": 20.0, "script": ["gate_on", "tick", "gate_off", "tick"]}}));
    rep
}

pub fn replay(config: &Value, ops: &[String]) -> Vec<String> {
    let mut out = Vec::new();
    let mut twin: Option<(Adsr, Adsr)> = None;
    let mut step_no = 0u64;
    let mut rx: Option<(MonoMidiReceiver, MonoMidiReceiver, u8)> = None;
    let mut q = Quantizer::new();
    q.forbid(&[Note::new(9), Note::new(10), Note::new(11), Note::new(3)]);
    let expanded: Vec<String> = expand_ops(ops).into_iter().flat_map(|(o, n)| std::iter::repeat(o).take(n as usize)).collect();
    for o in &expanded {
        let parts: Vec<&str> = o.split(':').collect();
        match parts[0] {
            "time" => {
                let x = parse_f32(parts[1]);
                let t: f32 = TimePeriod::from(x).into();
                let bad = judge(x, t, 0.001, 20.0);
                out.push(format!("TimePeriod::from({:?}) = {:?}{}", x, t, bad.map(|b| format!("   !! C20 [{}]", b)).unwrap_or_default()));
            }
            "sustain" => {
                let x = parse_f32(parts[1]);
                let t: f32 = SustainLevel::from(x).into();
                let bad = judge(x, t, 0.0, 1.0);
                out.push(format!("SustainLevel::from({:?}) = {:?}{}", x, t, bad.map(|b| format!("   !! C20 [{}]", b)).unwrap_or_default()));
            }
            "note" => {
                let n: u8 = parts[1].parse().unwrap();
                let g: u8 = Note::from(n).into();
                out.push(format!("Note::from({}) = {}{}", n, g, if g != n.min(11) { "   !! C20 [note-clamp]" } else { "" }));
            }
            "allow" | "forbid" => {
                let n: u8 = parts[1].parse().unwrap();
                if parts[0] == "allow" {
                    q.allow(&[Note::from(n)]);
                } else {
                    q.forbid(&[Note::from(n)]);
                }
                out.push(format!("{}({}) -> scale {:012b}", parts[0], n, q.verif_allowed()));
            }
            "twin" | "twinlong" => {
                let fs = config["fs"].as_f64().unwrap_or(1000.0) as f32;
                let mut a = Adsr::new(fs);
                let mut b = Adsr::new(fs);
                for x in [&mut a, &mut b] {
                    if parts[0] == "twin" {
                        x.set_input(Input::Attack(0.003.into()));
                        x.set_input(Input::Decay(0.002.into()));
                        x.set_input(Input::Release(0.003.into()));
                    }
                    x.set_input(Input::Sustain(0.5.into()));
                }
                let v = parse_f32(parts[2]);
                let bd = parse_f32(parts[3]);
                let mk = |val: f32| match parts[1] {
                    "attack" => Input::Attack(val.into()),
                    "decay" => Input::Decay(val.into()),
                    "sustain" => Input::Sustain(val.into()),
                    _ => Input::Release(val.into()),
                };
                a.set_input(mk(v));
                b.set_input(mk(bd));
                twin = Some((a, b));
                out.push(format!("twin envelopes: {} = {:?} vs {:?}", parts[1], v, bd));
            }
            "tick" | "gate_on" | "gate_off" => {
                if let Some((a, b)) = twin.as_mut() {
                    for x in [&mut *a, &mut *b] {
                        match parts[0] {
                            "tick" => x.tick(),
                            "gate_on" => x.gate_on(),
                            _ => x.gate_off(),
                        }
                    }
                    let bad = a.value().to_bits() != b.value().to_bits();
                    step_no += 1;
                    if bad || step_no < 8 || step_no % 500 == 0 {
                        out.push(format!("#{:<6} {:<9} -> {:?} / {:?}{}", step_no, parts[0], a.value(), b.value(), if bad { "   !! C20 [twin-envelope-differs]" } else { "" }));
                    }
                    if bad {
                        return out;
                    }
                }
            }
            "byte" => {
                let ch = config["channel"].as_u64().unwrap_or(0) as u8;
                if rx.is_none() {
                    rx = Some((MonoMidiReceiver::new(ch), MonoMidiReceiver::new(ch.min(15)), ch));
                }
                let (a, b, _) = rx.as_mut().unwrap();
                let byte: u8 = parts[1].parse().unwrap();
                a.parse(byte);
                b.parse(byte);
                let bad = midi_obs(a) != midi_obs(b);
                out.push(format!("byte {:#04x} -> {:?} / {:?}{}", byte, midi_obs(a), midi_obs(b), if bad { "   !! C20 [channel-clamp]" } else { "" }));
            }
            _ => out.push(format!("unknown op {}", o)),
        }
    }
    out
}
