//! verif <id> --tier quick|thorough [--root /verif]   |   verif replay <file>
mod common;
mod explore;
mod p_lfo;

use common::*;
use std::path::PathBuf;
use std::time::Instant;

fn main() {
    let args: Vec<String> = std::env::args().collect();
    if args.len() < 2 {
        eprintln!("usage: verif <C01..C20> --tier quick|thorough [--root DIR] | verif replay <file>");
        std::process::exit(2);
    }
    let mut root = PathBuf::from(std::env::var("VERIF_ROOT").unwrap_or_else(|_| "/verif".to_string()));
    let mut tier = match std::env::var("VERIF_TIER").as_deref() {
        Ok("thorough") => Tier::Thorough,
        _ => Tier::Quick,
    };
    let mut threads: usize = std::env::var("VERIF_THREADS").ok().and_then(|s| s.parse().ok()).unwrap_or_else(|| std::thread::available_parallelism().map(|n| n.get()).unwrap_or(4));
    let mut i = 2;
    let mut rest: Vec<String> = Vec::new();
    while i < args.len() {
        match args[i].as_str() {
            "--tier" => {
                tier = if args[i + 1] == "thorough" { Tier::Thorough } else { Tier::Quick };
                i += 2;
            }
            "--root" => {
                root = PathBuf::from(&args[i + 1]);
                i += 2;
            }
            "--threads" => {
                threads = args[i + 1].parse().expect("threads");
                i += 2;
            }
            _ => {
                rest.push(args[i].clone());
                i += 1;
            }
        }
    }
    let seed: i64 = std::env::var("VERIF_SEED").ok().and_then(|s| s.parse().ok()).unwrap_or(0);
    quiet_panics();
    if args[1] == "replay" {
        std::process::exit(replay(&rest));
    }
    let ctx = Ctx { id: args[1].clone(), tier, seed, root, threads, start: Instant::now() };
    let (rep, text) = match ctx.id.as_str() {
        "C10" => (p_lfo::c10(&ctx), "every phase-counter value of the real oscillator is visited through tick() and judged against the exact waveform definitions"),
        "C11" => (p_lfo::c11(&ctx), "exhaustive enumeration of set_phase inputs, a frequency grid, and bounded-depth exploration of call histories of the real oscillator"),
        "C12" => (p_lfo::c12(&ctx), "every adjacent pair of phase-counter values (and every start phase for larger increments) of the real oscillator is compared against the slope bound"),
        other => {
            eprintln!("MACHINERY: unknown property id {}", other);
            std::process::exit(2);
        }
    };
    let out = finish(&ctx, rep, text);
    std::process::exit(out.exit);
}

fn replay(rest: &[String]) -> i32 {
    let Some(file) = rest.first() else {
        eprintln!("usage: verif replay <file>");
        return 2;
    };
    let txt = match std::fs::read_to_string(file) {
        Ok(t) => t,
        Err(e) => {
            eprintln!("MACHINERY: {}: {}", file, e);
            return 2;
        }
    };
    let v: serde_json::Value = match serde_json::from_str(&txt) {
        Ok(v) => v,
        Err(e) => {
            eprintln!("MACHINERY: {}: {}", file, e);
            return 2;
        }
    };
    let machine = v["machine"].as_str().unwrap_or("");
    let ops: Vec<String> = v["ops"].as_array().map(|a| a.iter().map(|x| x.as_str().unwrap_or("").to_string()).collect()).unwrap_or_default();
    let cfg = &v["config"];
    let run = || -> Vec<String> {
        match machine {
            "lfo" => p_lfo::replay(cfg, &ops),
            _ => vec![format!("unknown machine '{}'", machine)],
        }
    };
    let a = run();
    let b = run();
    println!("replay of {} (property {}, class {})", file, v["property"], v["class"]);
    println!("recorded: {}", v["detail"].as_str().unwrap_or(""));
    for l in &a {
        println!("{}", l);
    }
    if a != b {
        eprintln!("MACHINERY: two replays of the same script produced different observations (uncontrolled nondeterminism)");
        return 2;
    }
    println!("(replayed twice on the real code: {} observation lines, identical)", a.len());
    if a.iter().any(|l| l.contains("!!") || l.contains("PANIC")) {
        1
    } else {
        0
    }
}
