#![allow(dead_code)]
//! verif <id> --tier quick|thorough [--root /verif]   |   verif replay <file>
mod common;
mod explore;
mod p_adsr;
mod p_c17;
mod p_clamp;
mod p_glide;
mod p_lfo;
mod p_midi;
mod sr;
mod p_quant;
mod p_ribbon;

use common::*;
use std::path::PathBuf;
use std::time::Instant;

fn main() {
    let args: Vec<String> = std::env::args().collect();
    if args.len() < 2 {
        eprintln!("usage: verif <C01..C20> --tier quick|thorough [--root DIR] | verif replay <file>");
        std::process::exit(2);
    }
    let mut root = PathBuf::from(std::env::var("VERIF_ROOT").unwrap_or_else(|_| "/verif".to_string()));
    let mut tier = match std::env::var("VERIF_TIER").as_deref() {
        Ok("thorough") => Tier::Thorough,
        _ => Tier::Quick,
    };
    let mut threads: usize = std::env::var("VERIF_THREADS").ok().and_then(|s| s.parse().ok()).unwrap_or_else(|| std::thread::available_parallelism().map(|n| n.get()).unwrap_or(4));
    let mut i = 2;
    let mut rest: Vec<String> = Vec::new();
    while i < args.len() {
        match args[i].as_str() {
            "--tier" => {
                tier = if args[i + 1] == "thorough" { Tier::Thorough } else { Tier::Quick };
                i += 2;
            }
            "--root" => {
                root = PathBuf::from(&args[i + 1]);
                i += 2;
            }
            "--threads" => {
                threads = args[i + 1].parse().expect("threads");
                i += 2;
            }
            _ => {
                rest.push(args[i].clone());
                i += 1;
            }
        }
    }
    let seed: i64 = std::env::var("VERIF_SEED").ok().and_then(|s| s.parse().ok()).unwrap_or(0);
    quiet_panics();
    if args[1] == "debug-rib" {
        let cfg = p_ribbon::RibCfg { fs: 334, softpot: 20e3, dropper: 820.0, pullup: 1e6 };
        let mk = || p_ribbon::RibM::<6>::new(cfg, vec![0.4, 1.0, 0.0], false, false, 2).unwrap();
        if let Some((a, b, d)) = explore::find_key_incompleteness(mk(), 400000) {
            println!("same key, different successors:\n  A: {}\n  B: {}\n  {}", a.join(","), b.join(","), d);
        }
        let b = explore::reach_bfs(mk());
        let d = explore::reach_dfs(mk());
        println!("bfs {} dfs {}", b.len(), d.len());
        let mut extra: Vec<(&u128, &Vec<String>)> = d.iter().filter(|(k, _)| !b.contains_key(*k)).collect();
        extra.sort_by_key(|(_, p)| p.len());
        for (k, p) in extra.iter().take(3) {
            println!("only in dfs: {:032x} path len {}: {}", k, p.len(), p.join(","));
        }
        let mut extra2: Vec<(&u128, &Vec<String>)> = b.iter().filter(|(k, _)| !d.contains_key(*k)).collect();
        extra2.sort_by_key(|(_, p)| p.len());
        for (k, p) in extra2.iter().take(3) {
            println!("only in bfs: {:032x} path len {}: {}", k, p.len(), p.join(","));
        }
        std::process::exit(0);
    }
    if args[1] == "replay" {
        std::process::exit(replay(&rest));
    }
    let ctx = Ctx { id: args[1].clone(), tier, seed, root, threads, start: Instant::now() };
    let r = std::panic::catch_unwind(std::panic::AssertUnwindSafe(|| run(&ctx)));
    match r {
        Ok(code) => std::process::exit(code),
        Err(e) => {
            let at = LAST_PANIC.lock().map(|g| g.clone()).unwrap_or_default();
            // a panic raised in the subject (or one of its dependencies) outside a guarded call - e.g. in a constructor
            // while a check was being set up - is a finding about the subject, not a failure of the harness
            let in_harness = at.contains("at src/") || at.starts_with("src/") || at.is_empty();
            if !in_harness {
                let id: &'static str = Box::leak(ctx.id.clone().into_boxed_str());
                let mut rep = Report::new();
                rep.rule.push("the check ended early: the subject panicked while the check was being set up".into());
                rep.exhaustive = false;
                rep.violation(Violation { prop: id, class: "panic".into(), detail: format!("the real code panicked outside a guarded call ({}): {}", at, panic_msg(&e)), machine: "none", config: serde_json::json!({}), ops: vec!["# raised while the check was constructing or driving the subject; rerun the check to reproduce".into()] });
                let out = finish(&ctx, rep, "the check ended early on a panic of the subject");
                std::process::exit(out.exit);
            }
            eprintln!("MACHINERY: the harness itself panicked: {} ({})", panic_msg(&e), at);
            std::process::exit(2);
        }
    }
}

fn run(ctx: &Ctx) -> i32 {
    let ctx: &Ctx = ctx;
    let (rep, text) = match ctx.id.as_str() {
        "C10" => (p_lfo::c10(ctx), "every phase-counter value of the real oscillator is visited through tick() and judged against the exact waveform definitions"),
        "C11" => (p_lfo::c11(ctx), "exhaustive enumeration of set_phase inputs, a frequency grid, and bounded-depth exploration of call histories of the real oscillator"),
        "C12" => (p_lfo::c12(ctx), "every adjacent pair of phase-counter values (and every start phase for larger increments) of the real oscillator is compared against the slope bound"),
        "C20" => (p_clamp::c20(ctx), "both float conversions over all 2^32 bit patterns, note and channel bytes over all 256 values, twin envelopes over all short event scripts"),
        "C07" => (p_quant::c07(ctx), "all ordered scale pairs x input grid with a real scale edit between two conversions, plus BFS to fixpoint over edit/convert histories of the real quantizer"),
        "C08" => (p_quant::c08(ctx), "all 4095 scales x the microvolt input lattice on a fresh real quantizer against an exact integer nearest-note reference"),
        "C09" => (p_quant::c09(ctx), "all scales x previous conversions x second inputs around the hysteresis window, differential against a fresh real quantizer, plus BFS to fixpoint over histories"),
        "C19" => (p_quant::c19(ctx), "record consistency evaluated on every conversion of the chromatic microvolt sweep and of the hysteresis exploration"),
        "C04" => (p_midi::c04(ctx), "BFS to fixpoint over note-message histories of the real receiver against a list-of-outstanding-notes reference model"),
        "C05" => (p_midi::c05(ctx), "BFS to fixpoint over note messages and edge polls of the real receiver against reference latches"),
        "C06" => (p_midi::c06(ctx), "byte-level BFS to fixpoint plus all 1- and 2-byte deviations of a stream catalogue, twin receivers around an independent MIDI 1.0 decoder"),
        "C18" => (p_midi::c18(ctx), "all controller numbers x values x channels and all pitch-bend values on the real receiver against the routing table, plus BFS to fixpoint over controller histories"),
        "C15" => (p_ribbon::c15(ctx), "BFS to fixpoint over sample / edge-poll histories of the real ribbon controller at six buffer capacities against a run-length reference model"),
        "C16" => (p_ribbon::c16(ctx), "BFS over multi-level sample histories of the real ribbon controller with reference-mean, differential (fresh controller) and monotonicity oracles on every pressed state"),
        "C01" => (p_adsr::c01(ctx), "complete phase walks (all 2^24 positions per phase in the thorough tier) and bounded-depth BFS over event histories of the real envelope with range / end-level / monotonicity / curve oracles on every tick"),
        "C02" => (p_adsr::c02(ctx), "every integer sample rate x a time menu run to completion on the real envelope against the duration bounds, plus bounded-depth BFS over event histories against a five-state reference machine"),
        "C03" => (p_adsr::c03(ctx), "the same walks and histories as C01 with the per-tick slope bound evaluated on every adjacent pair of outputs"),
        "C13" => (p_glide::c13(ctx), "enumeration of all operation sequences to a depth, all <=2-call set_time schedules over a 40-sample glide and long holds on the real glide processor with range / monotone-approach / settling oracles after every sample"),
        "C14" => (p_glide::c14(ctx), "step responses of the real glide processor over a sample-rate x time plane against the statement's bounds, and all short set_time schedules against the dead-band rule"),
        "C17" => (p_c17::c17(ctx), "bounded exploration of every module with extreme-argument alphabets plus complete finite input spaces, all under overflow checks, debug assertions and catch_unwind, and a watchdog for envelope termination"),
        other => {
            eprintln!("MACHINERY: unknown property id {}", other);
            return 2;
        }
    };
    let out = finish(ctx, rep, text);
    out.exit
}

fn replay(rest: &[String]) -> i32 {
    let Some(file) = rest.first() else {
        eprintln!("usage: verif replay <file>");
        return 2;
    };
    let txt = match std::fs::read_to_string(file) {
        Ok(t) => t,
        Err(e) => {
            eprintln!("MACHINERY: {}: {}", file, e);
            return 2;
        }
    };
    let v: serde_json::Value = match serde_json::from_str(&txt) {
        Ok(v) => v,
        Err(e) => {
            eprintln!("MACHINERY: {}: {}", file, e);
            return 2;
        }
    };
    let machine = v["machine"].as_str().unwrap_or("");
    let ops: Vec<String> = v["ops"].as_array().map(|a| a.iter().map(|x| x.as_str().unwrap_or("").to_string()).collect()).unwrap_or_default();
    let cfg = &v["config"];
    let run = || -> Vec<String> {
        match machine {
            "lfo" => p_lfo::replay(cfg, &ops),
            "glide" => p_glide::replay(cfg, &ops),
            "adsr" => p_adsr::replay(cfg, &ops),
            "ribbon" => p_ribbon::replay(cfg, &ops),
            "midi" => p_midi::replay(cfg, &ops),
            "clamp" => p_clamp::replay(cfg, &ops),
            "quantizer" => p_quant::replay(cfg, &ops),
            _ => vec![format!("unknown machine '{}'", machine)],
        }
    };
    let a = run();
    let b = run();
    println!("replay of {} (property {}, class {})", file, v["property"], v["class"]);
    println!("recorded: {}", v["detail"].as_str().unwrap_or(""));
    for l in &a {
        println!("{}", l);
    }
    if a != b {
        eprintln!("MACHINERY: two replays of the same script produced different observations (uncontrolled nondeterminism)");
        return 2;
    }
    println!("(replayed twice on the real code: {} observation lines, identical)", a.len());
    if a.iter().any(|l| l.contains("!!") || l.contains("PANIC")) {
        1
    } else {
        0
    }
}
