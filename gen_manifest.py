#!/usr/bin/env python3
"""Regenerates MANIFEST.json from the table below (kept next to the checks so the two stay in step)."""
import json, subprocess, os
ROOT = os.path.dirname(os.path.abspath(__file__))
# id -> (technique, level text, level note, design ref)
CHECKS = {}
def add(i, technique, text, note, ref):
    CHECKS[i] = dict(technique=technique, text=text, note=note, ref=ref)

exec(open(os.path.join(ROOT, "manifest_table.py")).read())

props = [json.loads(l)["id"] for l in open(os.path.join(ROOT, "properties.jsonl"))]
try:
    hook_commits = subprocess.check_output(["git", "-C", "/repo", "log", "--format=%H", "--grep=^verif-hooks"], text=True).split()
except Exception:
    hook_commits = []
man = {
    "version": 1,
    "setup_cmd": "cd /verif/harness && CARGO_NET_OFFLINE=true cargo build --release --offline",
    "hooks": {
        "guard": "cargo feature verif-hooks (cfg(feature = \"verif-hooks\"))",
        "enable": "the harness crate depends on synth-utils by path (/repo) with features = [\"verif-hooks\"]; every ./check run starts with cargo build, which recompiles /repo's working tree",
        "baseline_off_cmd": "cd /repo && cargo test --workspace --no-fail-fast --offline",
        "source_commits": hook_commits,
        "add_only": True,
    },
    "engines": [
        {"name": "E1-explorer", "path": "harness/src/explore.rs", "serves_properties": sorted(CHECKS), "kind_free_text": "explicit-state BFS / bounded sequence enumeration whose transition function is the real method call; reference model and oracles evaluated on every transition"},
        {"name": "E2-sweep", "path": "harness/src/common.rs", "serves_properties": sorted(CHECKS), "kind_free_text": "deterministic parallel enumeration of a complete finite state or input space (2^24 phases, 2^32 bit patterns, scales x microvolts) on the real code"},
        {"name": "E3-stateright", "path": "harness/src/sr.rs", "serves_properties": [p for p in ["C04", "C05", "C15"] if p in CHECKS], "kind_free_text": "stateright BFS over the same machines as an independent cross-check of E1's state counts (thorough tier)"},
    ],
    "checks": [],
    "not_applicable": [],
    "notes": "All checks: ./check <id> <quick|thorough>; exit 0 held / 1 violation / 2 machinery failure. Known findings: known_findings.json. Replays: ./check replay <file>.",
}
for p in props:
    if p in CHECKS:
        c = CHECKS[p]
        man["checks"].append({
            "property_id": p,
            "quick_cmd": f"./check {p} quick",
            "thorough_cmd": f"./check {p} thorough",
            "evidence_file": f"/verif/evidence/{p}.json",
            "replay_cmd_template": "./check replay {path}",
            "engine": "E1-explorer + E2-sweep",
            "level_claimed": {"category": "model_checking", "text": c["text"], "design_ref": c["ref"]},
            "level_note": c["note"],
            "technique": c["technique"],
        })
    else:
        man["not_applicable"].append({"property_id": p, "reason": "check not built yet (work in progress; the design decides it by exhaustive enumeration, see DESIGN.md section 4)"})
json.dump(man, open(os.path.join(ROOT, "MANIFEST.json"), "w"), indent=1)
print("checks:", len(man["checks"]), "not_applicable:", len(man["not_applicable"]))
