#!/bin/bash
# ./lanes.sh <jobfile> <resultfile> [lanes]
#
# Runs many (patch, checks) jobs in parallel "lanes". /verif/check builds against /repo, of which there is only one, so
# applying patches there is strictly serial (./seedtest.sh run, ./oktest.sh run). A lane is a byte-identical copy of
# /verif/harness whose path dependency points at its own scratch worktree of /repo (HEAD), with its own output root;
# the verdicts are those of the same harness sources on the same subject sources. Job files: ./matrix_jobs.py. Used for the seeded / benign
# matrices only - the evidence under /verif/evidence always comes from ./check against /repo itself.
#
# jobfile lines:   <name> <patchfile> <tier> <id> [<id> ...]
# result lines:    <name> <id> <tier> exit=<e> <first class= line>
set -u
JOBS="$1"; RES="$2"; N="${3:-6}"
ROOT="$(cd "$(dirname "$0")" && pwd)"
: > "$RES"
lane() {
  k=$1
  L=/tmp/lane_$k
  rm -rf $L; mkdir -p $L/out/evidence
  git -C /repo worktree add --detach $L/repo HEAD >/dev/null 2>&1 || { echo "lane $k: worktree failed" >> "$RES"; return; }
  cp /repo/Cargo.lock $L/repo/ 2>/dev/null
  rsync -a "$ROOT/harness" $L/   # with target/: the dependencies are reused, only the subject and the harness are rebuilt
  sed -i "s#path = \"/repo\"#path = \"$L/repo\"#" $L/harness/Cargo.toml
  cp "$ROOT/known_findings.json" $L/out/
  i=0
  while read -r name patch tier ids; do
    i=$((i+1))
    [ $(( (i - 1) % N )) -eq $k ] || continue
    ( cd $L/repo && git checkout -q -- . && git clean -fdq src && git apply "$patch" ) || { echo "$name - $tier exit=APPLY-FAILED" >> "$RES"; continue; }
    find $L/repo/src -name '*.rs' -exec touch {} +
    if ! ( cd $L/harness && CARGO_NET_OFFLINE=true cargo build --release --offline >$L/build.log 2>&1 ); then
      echo "$name - $tier exit=BUILD-FAILED $(grep -m1 '^error' $L/build.log)" >> "$RES"; continue
    fi
    for id in $ids; do
      out=$(VERIF_THREADS=${LANE_THREADS:-6} $L/harness/target/release/verif $id --tier $tier --root $L/out 2>&1); e=$?
      echo "$name $id $tier exit=$e $(echo "$out" | grep -E 'class=|MACHINERY' | head -1 | cut -c1-200)" >> "$RES"
    done
  done < "$JOBS"
  ( cd $L/repo && git checkout -q -- . )
  git -C /repo worktree remove --force $L/repo >/dev/null 2>&1
  rm -rf $L
}
for k in $(seq 0 $((N-1))); do lane $k & done
wait
git -C /repo worktree prune
sort -o "$RES" "$RES"
echo "lanes done: $(wc -l < "$RES") result lines"
