#!/opt/veriftools/pyvenv/bin/python
import json, jsonschema, sys, glob
jsonschema.validate(json.load(open('/verif/MANIFEST.json')), json.load(open('/root/.vp/MANIFEST.schema.json')))
n = 0
for f in sorted(glob.glob('/verif/evidence/*.json')):
    jsonschema.validate(json.load(open(f)), json.load(open('/root/.vp/EVIDENCE.schema.json')))
    n += 1
print('manifest ok; evidence files valid:', n)
