#!/bin/bash
# ./oktest.sh confirm <src_dir> <name>   : check that a behaviour-preserving change compiles, passes the 62+4 tests and builds
#                                          with the hooks; store it as benign/<name>/
# ./oktest.sh run <name> <tier> <ids...> : apply benign/<name>/patch.diff to /repo, run the checks (all must exit 0), undo
set -u
ROOT="$(cd "$(dirname "$0")" && pwd)"
cmd="$1"; shift
case "$cmd" in
confirm)
  src="$1"; name="$2"
  wt=/tmp/okconfirm_$$
  git -C /repo worktree add --detach "$wt" HEAD >/dev/null 2>&1 || exit 2
  cp /repo/Cargo.lock "$wt/"; cd "$wt"
  git apply "$src/patch.diff" || { echo "patch does not apply"; cd /; git -C /repo worktree remove --force "$wt"; exit 2; }
  suite=$( (CARGO_TARGET_DIR=/tmp/okconfirm_target cargo test --offline --lib 2>&1; CARGO_TARGET_DIR=/tmp/okconfirm_target cargo test --offline --doc 2>&1) | grep -E "^test result" | tr '\n' ' ')
  hooks=$(CARGO_TARGET_DIR=/tmp/okconfirm_target cargo build --offline --features verif-hooks 2>&1 | tail -1)
  cd /; git -C /repo worktree remove --force "$wt"
  echo "suite: $suite"; echo "hooks: $hooks"
  ok=1
  echo "$suite" | grep -q "62 passed; 0 failed" || ok=0
  echo "$suite" | grep -q "4 passed; 0 failed" || ok=0
  echo "$hooks" | grep -q "Finished" || ok=0
  if [ $ok -eq 1 ]; then
    mkdir -p "$ROOT/benign/$name"; cp "$src/patch.diff" "$ROOT/benign/$name/patch.diff"; [ -f "$src/notes.md" ] && cp "$src/notes.md" "$ROOT/benign/$name/notes.md"
    echo "CONFIRMED $name"
  else echo "REJECTED $name"; exit 1; fi
  ;;
run)
  name="$1"; tier="$2"; shift 2
  if [ -n "$(git -C /repo status --porcelain --untracked-files=no)" ]; then echo "/repo is not clean"; exit 2; fi
  git -C /repo apply "$ROOT/benign/$name/patch.diff" || exit 2
  for id in "$@"; do
    out=$("$ROOT/check" "$id" "$tier" 2>&1); e=$?
    echo "$name $id $tier exit=$e  $(echo "$out" | grep -E 'class=|MACHINERY' | head -2 | cut -c1-260 | tr '\n' ' ')"
  done
  git -C /repo checkout -- .
  ;;
esac
