add("C10", "explicit-state enumeration of all 2^24 oscillator phases on the real code",
    "Every one of the 2^24 phase-counter states of the real Lfo is reached through tick() and all five waveforms are compared with exact references (sine within 0.0125); read-order and history independence are checked on a sub-lattice and by bounded exploration of call histories. Complete for the property's own quantifier.",
    "Trusted: the harness's f64 reference formulas; phase is read back from the public up-saw output. x86-64 only.", "4 (LFO)")
add("C11", "exhaustive input enumeration (2^32 f32 patterns) + bounded-depth state exploration of the real code",
    "set_phase over all 2^32 bit patterns (thorough; every 16th + boundary neighbourhoods quick), one-tick advance over a frequency x sample-rate grid, and BFS over tick/set_frequency/set_phase/reset histories with a per-tick oracle.",
    "Frequencies are a grid (200001 per rate x 8 rates), not all f32 pairs; histories depth-bounded.", "4 (LFO)")
add("C12", "explicit-state enumeration of all 2^24 adjacent phase pairs on the real code",
    "All 2^24 (phase, phase+1) pairs including the wrap, then all start phases for a menu of larger increments, compared against the slope bound of the statement.",
    "Larger increments are a menu of 9 values (thorough), not all 2^24.", "4 (LFO)")
