add("C10", "explicit-state enumeration of all 2^24 oscillator phases on the real code",
    "Every one of the 2^24 phase-counter states of the real Lfo is reached through tick() and all five waveforms are compared with exact references (sine within 0.0125); read-order and history independence are checked on a sub-lattice and by bounded exploration of call histories. Complete for the property's own quantifier.",
    "Trusted: the harness's f64 reference formulas; phase is read back from the public up-saw output. x86-64 only.", "4 (LFO)")
add("C11", "exhaustive input enumeration (2^32 f32 patterns) + bounded-depth state exploration of the real code",
    "set_phase over all 2^32 bit patterns (thorough; every 16th + boundary neighbourhoods quick), one-tick advance over a frequency x sample-rate grid, and BFS over tick/set_frequency/set_phase/reset histories with a per-tick oracle.",
    "Frequencies are a grid (200001 per rate x 14 rates incl. non-integer ones) plus every integer sample rate x 5 frequencies, not all f32 pairs; histories depth-bounded.", "4 (LFO)")
add("C12", "explicit-state enumeration of all 2^24 adjacent phase pairs on the real code",
    "All 2^24 (phase, phase+1) pairs including the wrap, then all start phases for a menu of larger increments, compared against the slope bound of the statement.",
    "Larger increments are a menu of ~85 values (around every power of two), not all 2^24.", "4 (LFO)")
add("C01", "complete phase walks (2^24 positions per phase) + bounded-depth BFS of event histories on the real code",
    "Every tick of complete walks through attack, decay and release for 14 start/sustain levels (thorough: every one of the 2^24 accumulator positions per phase at the smallest in-range increment; quick: complete walks at 10 increments) and every transition of a bounded-depth BFS over gate/tick/set_input histories is judged for range, exact end levels, monotonicity between events and 0.5% fidelity to the documented RC curve.",
    "Sample rates, times and levels are menus, not all f32 combinations; histories depth-bounded (10/14 operations with 19 operations, 18/26 with 7); mid-phase events on a lattice of 16/48 positions. Phase position via the verif_phase_bits hook.", "4 (ADSR)")
add("C02", "exhaustive configuration sweep (every integer sample rate) + bounded-depth BFS against a reference state machine",
    "Every integer sample rate in [100, 192000] (quick: every 7th) x 7 times incl. sub-sample products, plus a 19 x 24 named grid with clamped/NaN/inf times, each run through all three timed phases with a watchdog against the statement's duration bounds; BFS over event histories against a five-state reference machine that accumulates per-tick ideal progress (mid-phase time changes).",
    "Times are a menu per rate; histories depth-bounded. Phase read via the verif_state hook (cross-checked by plateau levels in C01).", "4 (ADSR)")
add("C03", "complete phase walks (all adjacent accumulator positions) + bounded-depth BFS with a per-tick slope oracle",
    "Same walks and histories as C01; on every tick |delta| is compared with slope x span x phase fraction + |delta sustain|; gate and parameter events must not move the output. Thorough compares every adjacent pair of positions at the slowest legal envelope.",
    "As C01.", "4 (ADSR)")
add("C04", "explicit-state BFS to fixpoint over message histories of the real receiver vs reference model",
    "BFS to fixpoint (no depth cap) over note-on / both note-off spellings / All-Notes-Off / foreign-channel / priority / retrigger operations with up to K outstanding notes (K=4..32 by alphabet), each message delivered byte by byte to the real receiver; gate, note and velocity compared with a Vec-of-outstanding-notes model after every message; stateright re-explores the same machine in the thorough tier.",
    "BFS note alphabets of 1-4 note numbers (32 outstanding notes reached with two); all 128x128 note pairs only through one fixed 8-message script.", "4 (MIDI)")
add("C05", "explicit-state BFS to fixpoint with edge polls as operations",
    "As C04 plus rising_gate()/falling_gate() as ordinary operations, so polls occur at every position of every history; each poll result must equal a reference latch.",
    "As C04.", "4 (MIDI)")
add("C06", "byte-level BFS to fixpoint + exhaustive 1- and 2-byte deviations of a stream catalogue, twin-receiver oracle",
    "A receiver fed raw bytes is compared after every byte with a second real receiver fed only the complete supported messages produced by an independent MIDI 1.0 decoder. Fixpoint over a 24-35 byte alphabet; every byte value inserted at every position (and every deleted byte) of 38 base streams on all 16 channels; thorough: every byte pair at every two positions.",
    "The harness decoder is the framing reference. Not all 256^n streams.", "4 (MIDI)")
add("C07", "exhaustive scale-pair x input-grid sweep + BFS to fixpoint over edit/convert histories",
    "All ordered pairs of scales (thorough: 4095^2; quick: 1- and 2-note toggles) x 150 inputs with a real scale edit between two conversions; BFS to fixpoint over allow/forbid/convert; every reported note must be allowed per is_allowed and per the model mask; the keep-last-note rule is checked for every forbid.",
    "Inputs are a 150-value grid across octaves 0, 1, 2, 9 and the range ends.", "4 (Quantizer)")
add("C08", "exhaustive sweep: 4095 scales x 10,000,001 microvolt inputs vs exact integer reference",
    "Thorough: every scale x every microvolt in [0, 10] V on a fresh real quantizer against the nearest-allowed-note rule in exact 1/3-uV integers with the 10 uV tie window. Quick: +-12 uV around all 241 half-semitone boundaries plus a stride, all scales.",
    "Inputs are f32 values nearest to k uV.", "4 (Quantizer)")
add("C09", "exhaustive previous-note x second-input x scale-edit sweep, differential against a fresh quantizer, + BFS to fixpoint",
    "For every scale (thorough: all 4095) and every previous conversion, 28 second inputs around the widened bucket with 4 kinds of scale edit: inside the window the note is kept, otherwise the record equals a fresh real quantizer's bit for bit; ramps and boundary noise; BFS to fixpoint over histories.",
    "Window edges within 1 uV may go either way.", "4 (Quantizer)")
add("C10", "explicit-state enumeration of all 2^24 oscillator phases on the real code",
    "Every one of the 2^24 phase-counter states of the real Lfo is reached through tick() and all five waveforms are compared with exact references (sine within 0.0125); read-order and history independence are checked on a sub-lattice and by bounded exploration of call histories. Complete for the property's own quantifier.",
    "Trusted: the harness's f64 reference formulas; phase is read back from the public up-saw output. x86-64 only.", "4 (LFO)")
add("C13", "exhaustive enumeration of all operation sequences to a depth + all <=2-deviation set_time schedules",
    "All 17^d operation sequences (d = 4-6) at three sample rates, all placements of up to two set_time calls over a 40-sample glide for all time triples, and 8*t*fs holds; after every sample the output must stay in the input range, approach a held input monotonically and settle (f32 allowance A).",
    "Input and time menus; depth-bounded; allowance A = 2 ulp(M)/(1-p).", "4 (Glide)")
add("C14", "exhaustive sweep of a sample-rate x time plane + all short set_time schedules vs dead-band model",
    "Step responses of the real processor for 6 rates x ~25 times x 6 steps against the 99.5% / 40-55% bounds, sub-2-sample times, >10 s vs 10 s, and all set_time schedules of length <= 4 over a 9-time menu judged against the set of times the dead-band rule allows.",
    "Geometric time grid (x1.5), not all times.", "4 (Glide)")
add("C15", "explicit-state BFS to fixpoint over sample/poll histories at six buffer capacities",
    "BFS to fixpoint on the real controller (rebuilt from its history for every successor) with in-range, out-of-range and near-boundary samples and both edge polls as operations, against a run-length model calibrated on a fresh controller; up to 2-3 reported presses per history; stateright cross-check.",
    "Six instantiated capacities (2..171); one in-range level at the larger ones; settling / allowance counts for all integer rates only through the snapshot hook.", "4 (Ribbon)")
add("C16", "explicit-state BFS with full buffer contents in the state + differential fresh-controller oracle",
    "BFS over 2-3 in-range levels with buffer contents in the key (fixpoint at capacities 2, 6, 9; bounded at 18): on every pressed state value() is compared with the f64 corrected mean, with min/max, with a fresh real controller fed only the contributing samples (bit-exact), and for monotonicity in each contributor; unchanged while lifted.",
    "Levels are 2-3 values; three resistor triples.", "4 (Ribbon)")
add("C17", "bounded exploration with extreme-argument alphabets + complete finite input spaces under overflow checks",
    "All modules explored to depth 3-5 with range end points, subnormals, +-MAX, NaN/inf; all 256^3 MIDI byte triples from 5 states; convert over f32 bit patterns (thorough: all 2^32 x 4 scales); envelope termination over the C02 plane with a 2^25-tick watchdog. Built with overflow-checks and debug-assertions for the subject and its dependencies.",
    "Single calls cannot hang (no unbounded loops); hang = envelope never finishing.", "4 (C17)")
add("C18", "exhaustive enumeration: 16 channels x 128 controllers x 128 values, all 16384 bend values, + BFS to fixpoint",
    "Complete finite spaces of controller and pitch-bend messages on listened and foreign channels from two start states against the routing table; BFS to fixpoint over controller/bend/reset/note histories.",
    "Complete for single messages; histories over value menus.", "4 (MIDI)")
add("C19", "exhaustive sweep of 10,000,001 chromatic inputs + record oracle on every conversion of the C09 exploration",
    "Record consistency (stairstep = note/12, sum reproduces input within 2 ulps, fraction ranges) on every microvolt of the chromatic scale without history, out-of-range inputs on all scales, and every conversion of the hysteresis exploration.",
    "2 ulps taken at the largest operand magnitude; chromatic fraction interval widened by the 10 uV tie window.", "4 (Quantizer)")
add("C20", "exhaustive enumeration of all 2^32 f32 bit patterns and all 256 byte values",
    "Both float conversions over all 2^32 patterns in both tiers; twin envelopes over all gate/tick scripts to depth 8/11; Note::from over all 256 values with all 2-edit histories; MonoMidiReceiver::new over all 256 channel bytes with traffic on all 16 channels.",
    "Complete for the conversions.", "4 (C20)")
