#!/usr/bin/env python3
"""matrix_jobs.py <benign|seeded|all> <jobfile> : write a job file for ./lanes.sh.

benign: every benign/<name>/patch.diff without a NOT_BENIGN marker x every check of its module (all must exit 0).
seeded: every seeded/<name>/patch.diff x the check of the property it breaks (meta.json) plus the ids in seeded/<name>/also.
Then:   ./lanes.sh <jobfile> <resultfile> [lanes]   and, for seeded rows,   seeded/make_results.py <resultfile>."""
import glob, json, os, re, sys
root = os.path.dirname(os.path.abspath(__file__))
mods = {'adsr': "C01 C02 C03 C17 C20", 'lfo': "C10 C11 C12 C17 C01 C02", 'midi': "C04 C05 C06 C18 C17 C20", 'quant': "C07 C08 C09 C19 C17 C20", 'glide': "C13 C14 C17", 'ribbon': "C15 C16 C17"}
what, out = sys.argv[1], sys.argv[2]
jobs = []
if what in ('benign', 'all'):
    for d in sorted(glob.glob(root + '/benign/*/')):
        n = os.path.basename(d.rstrip('/'))
        if os.path.exists(d + 'NOT_BENIGN') or not os.path.exists(d + 'patch.diff'):
            continue
        jobs.append("%s %spatch.diff quick %s" % (n, d, mods[re.match(r'([a-z]+)', n).group(1)]))
if what in ('seeded', 'all'):
    for d in sorted(glob.glob(root + '/seeded/*/')):
        n = os.path.basename(d.rstrip('/'))
        if not os.path.exists(d + 'patch.diff'):
            continue
        p = json.load(open(d + 'meta.json'))['breaks_property'] if os.path.exists(d + 'meta.json') else n.split('-')[0]
        if p == 'none':
            p = 'C04'
        also = open(d + 'also').read().split() if os.path.exists(d + 'also') else []
        jobs.append("%s %spatch.diff quick %s" % (n, d, ' '.join([p] + [a for a in also if a != p])))
open(out, 'w').write('\n'.join(jobs) + '\n')
print(len(jobs), 'jobs')
